"""Hypothesis strategies.  Everything random comes from Hypothesis draws (shrinkable, replayable).

All numeric payloads are returned as numpy arrays; `jsonable` turns a case into plain lists.
SPD matrices are built as Q diag(lam) Q' with lam in [lam_min, kappa*lam_min] so the condition number
bound of the properties (<= 1e4) holds by construction.
"""
import numpy as np
from hypothesis import strategies as st
from hypothesis.extra import numpy as hnp


def floats(lo, hi):
    return st.floats(lo, hi, allow_nan=False, allow_infinity=False, allow_subnormal=False, width=64)


@st.composite
def _big_arr(draw, shape, lo, hi):
    """Large arrays (high-dimensional cases) would exceed Hypothesis' per-example data budget: the bulk is a deterministic
    function of one drawn integer (numpy RandomState), so the case stays a pure function of the drawn data; the replay file
    stores the array itself."""
    seed = draw(st.integers(0, 2**32 - 1))
    return np.random.RandomState(seed).uniform(lo, hi, size=shape)


def arr(shape, lo=-2.0, hi=2.0):
    shape = tuple(int(s) for s in shape)
    if int(np.prod(shape)) > 160:
        return _big_arr(shape, lo, hi)
    return hnp.arrays(np.float64, shape, elements=floats(lo, hi), fill=st.nothing())


def ints(lo, hi):
    return st.integers(lo, hi)


def _orth(G):
    """Orthonormal Q from any square matrix stack (QR; valid for singular input too)."""
    Q, Rr = np.linalg.qr(G)
    return Q


@st.composite
def spd(draw, R, D, kappa=100.0, lam_lo=0.3, lam_hi=3.0, diag=False, psd_rank=None):
    """Stack [R,D,D] of symmetric positive definite matrices, cond <= kappa.
    diag=True: diagonal matrices.  psd_rank=k: only k non-zero eigenvalues (PSD, rank-deficient)."""
    lam_min = draw(arr((R, 1), lam_lo, lam_hi))
    u = draw(arr((R, D), 0.0, 1.0))
    lam = lam_min * kappa**u
    if psd_rank is not None:
        lam = lam.copy()
        lam[:, psd_rank:] = 0.0
    if diag:
        M = np.zeros((R, D, D))
        for r in range(R):
            M[r] = np.diag(lam[r])
        return M
    G = draw(arr((R, D, D), -1.0, 1.0))
    Q = _orth(G + 1e-3 * np.eye(D))
    M = np.einsum("rik,rk,rjk->rij", Q, lam, Q)
    return 0.5 * (M + np.swapaxes(M, 1, 2))


def index_array(R, min_size=1, max_size=None, allow_negative=True):
    lo = -R if allow_negative else 0
    return st.lists(st.integers(lo, R - 1), min_size=min_size, max_size=max_size or max(2, R + 2))


def perm_prefix(D, min_size=1, max_size=None):
    """Non-empty duplicate-free sequence of coordinates in arbitrary order."""
    max_size = D if max_size is None else max_size
    return st.permutations(list(range(D))).flatmap(
        lambda p: st.integers(min_size, max_size).map(lambda k: list(p[:k]))
    )


def jsonable(x):
    if isinstance(x, dict):
        return {str(k): jsonable(v) for k, v in x.items()}
    if isinstance(x, (list, tuple)):
        return [jsonable(v) for v in x]
    if isinstance(x, np.ndarray):
        return x.tolist()
    if isinstance(x, (np.floating,)):
        return float(x)
    if isinstance(x, (np.integer,)):
        return int(x)
    if isinstance(x, (np.bool_,)):
        return bool(x)
    return x


def pool_subset(pool, shard, nshards):
    """Deterministic shard of a shape pool (keeps order: simplest first, so shrinking goes there)."""
    sub = [p for i, p in enumerate(pool) if i % nshards == shard]
    return sub or [pool[shard % len(pool)]]


# ----------------------------------------------------------------------------- object payloads
MEASURE_KINDS = ["measure", "diag_measure", "pdf", "diag_pdf"]
FACTOR_KINDS = ["general", "rank_one", "linear", "constant", "measure", "density"]
CACHES = ["cold", "sigma", "full"]


@st.composite
def measure_params(draw, kind, R, D, kappa=100.0, extreme=False, hetero=False):
    """Defining inputs of a measure/density of the given kind."""
    diag = kind.startswith("diag")
    # magnitude regimes: mostly O(1) payloads, sometimes large / tiny information vectors, means and log-constants,
    # and an overall scale of the matrix (the properties quantify over arbitrary values)
    vs = draw(st.sampled_from([1.0, 1.0, 1.0, 1.0, 5.0, 0.01]))
    # `extreme`: overall scales of 1e+-8 (a change of units), used where the case stays unit-consistent or consists of
    # a single object, so that derived matrices remain well conditioned; "wide" (high-dimensional cases): standard deviations
    # of 1e+-8 more often, so that determinants leave the float64 range while their logarithms are ordinary numbers
    ms = draw(st.sampled_from([1.0, 1.0, 1.0, 1.0, 1.0, 1.0, 30.0, 0.03] + ([1e8, 1e-8] if extreme else [])
                               + ([1e16, 1e-16, 1e16, 1e-16, 1e8, 1e-8] if extreme == "wide" else [])))
    if kind in ("measure", "diag_measure"):
        p = {
            "Lambda": draw(spd(R, D, kappa=kappa, diag=diag)) * ms,
            "nu": draw(arr((R, D))) * vs * (ms ** 0.5),
            "ln_beta": draw(arr((R,))) * draw(st.sampled_from([1.0, 1.0, 1.0, 25.0])),
        }
        return _exact_structure(draw, _hetero_units(draw, p, "Lambda", "nu", hetero, R), "Lambda", "nu", ms)
    p = {"Sigma": draw(spd(R, D, kappa=kappa, diag=diag)) * ms, "mu": draw(arr((R, D))) * vs * (ms ** 0.5)}
    return _exact_structure(draw, _hetero_units(draw, p, "Sigma", "mu", hetero, R), "Sigma", "mu", ms)


def _hetero_units(draw, p, mkey, vkey, hetero, R):
    """Components of one batch are independent objects and may live in different units: where the check asks for it (`hetero`:
    single-object cases and products whose factor is expressed in component 0's units), a tenth of the batches mix components whose standard deviations differ by up to 1e7 (each component keeps its
    own condition number).  Anything reduced over the batch axis (a batch-wide mean, max, any/all) couples them."""
    if not hetero or R < 2 or not draw(st.sampled_from([False] * 9 + [True])):
        return p
    k = np.array([draw(st.sampled_from([-4.0, -2.0, 0.0, 3.0])) for _ in range(R)])
    k = k - k[0]  # component 0 keeps the units of the case (evaluation points, factors)
    if np.all(k == 0):
        k[1] = draw(st.sampled_from([-7.0, -4.0, 4.0, 7.0]))
    sd = 10.0 ** k
    sgn = -1.0 if mkey == "Lambda" else 1.0
    p = dict(p)
    p[mkey] = np.array(p[mkey], float) * (sd ** (2 * sgn))[:, None, None]
    p[vkey] = np.array(p[vkey], float) * (sd ** sgn)[:, None]
    p["_hetero"] = True
    p["_structure"] = "components_in_different_units"
    return p


STRUCTURES = ["diagonal_in_full_class", "isotropic", "vector_exactly_zero", "ln_beta_exactly_zero", "identical_components",
              "vector_with_zero_entries", "integer_valued"]


def _exact_structure(draw, p, mkey, vkey, ms):
    """Exact structure that element-wise random floats never produce (an eighth of the cases): exactly diagonal or isotropic
    matrices in the full class, an exactly zero vector / log-constant, zero entries, two identical components, integer-valued
    data.  Fast paths and 'simplifications' are typically keyed on, or only valid for, such inputs."""
    if p.get("_hetero") or not draw(st.sampled_from([False] * 7 + [True])):
        return p
    which = draw(st.sampled_from(STRUCTURES))
    A, v = np.array(p[mkey], float), np.array(p[vkey], float)
    R, D = v.shape
    if (which == "ln_beta_exactly_zero" and "ln_beta" not in p) or (which == "identical_components" and R < 2) or (which == "integer_valued" and ms != 1.0):
        return p
    if which == "diagonal_in_full_class":
        A = A * np.eye(D)[None]
    elif which == "isotropic":
        A = np.einsum("r,ij->rij", np.einsum("rii->r", A) / D, np.eye(D))
    elif which == "vector_exactly_zero":
        v = np.zeros_like(v)
    elif which == "ln_beta_exactly_zero" and "ln_beta" in p:
        p = dict(p, ln_beta=np.zeros(R))
    elif which == "identical_components" and R >= 2:
        A[1], v[1] = A[0], v[0]
    elif which == "vector_with_zero_entries":
        v[:, 0] = 0.0
    elif which == "integer_valued" and ms == 1.0:
        A = np.einsum("rd,ij->rij", np.ones((R, 1)), np.eye(D))[:, :, :] * np.round(1 + np.abs(v[:, :1, None]))
        v = np.round(v)
    p = dict(p)
    p[mkey], p[vkey] = A, v
    p["_structure"] = which
    return p


def unit_of(kind, params):
    """Length unit of a measure/density drawn with extreme=True: 10**k with k the rounded log10 of the geometric-mean
    standard deviation of component 0 when that is beyond 1e+-3, else 1.0.  Evaluation points (and other operands) are
    expressed in this unit so that comparisons stay sharp (a point 1e4 standard deviations out would bury every error under
    the size of the quadratic form)."""
    key = "Lambda" if "Lambda" in params and "Sigma" not in params else "Sigma"
    ev = np.linalg.eigvalsh(np.asarray(params[key], float)[0])
    sd = float(np.exp(0.5 * np.mean(np.log(ev))))
    if key == "Lambda":
        sd = 1.0 / sd
    k = int(np.round(np.log10(sd)))
    return 10.0 ** k if abs(k) >= 3 else 1.0


def rescale_factor(kind, p, unit):
    """The same factor expressed for arguments measured in `unit` (f'(x) = f(x / unit))."""
    if unit == 1.0:
        return p
    p = dict(p)
    if kind in ("general", "measure"):
        p["Lambda"] = np.asarray(p["Lambda"], float) / unit**2
        p["nu"] = np.asarray(p["nu"], float) / unit
    elif kind == "rank_one":
        p["v"] = np.asarray(p["v"], float) / unit
        p["nu"] = np.asarray(p["nu"], float) / unit
    elif kind == "linear":
        p["nu"] = np.asarray(p["nu"], float) / unit
    elif kind == "density":
        p["Sigma"] = np.asarray(p["Sigma"], float) * unit**2
        p["mu"] = np.asarray(p["mu"], float) * unit
    return p


@st.composite
def factor_params(draw, kind, R, D, kappa=100.0):
    p = draw(_factor_params(kind, R, D, kappa))
    if kind in ("general", "rank_one", "linear") and draw(st.sampled_from([False] * 7 + [True])):
        which = draw(st.sampled_from(["nu_exactly_zero", "ln_beta_exactly_zero", "diagonal_Lambda", "v_with_zero_entry", "v_parallel_to_nu",
                                      "identical_components"]))
        ok = True
        if which == "nu_exactly_zero":
            p["nu"] = np.zeros((R, D))
        elif which == "ln_beta_exactly_zero":
            p["ln_beta"] = np.zeros(R)
        elif which == "diagonal_Lambda" and kind == "general":
            p["Lambda"] = np.array(p["Lambda"], float) * np.eye(D)[None]
        elif which == "v_with_zero_entry" and kind == "rank_one":
            p["v"] = np.array(p["v"], float)
            p["v"][:, 0] = 0.0
            if D == 1:
                ok = False
        elif which == "v_parallel_to_nu" and kind == "rank_one":
            p["nu"] = 0.7 * np.array(p["v"], float)
        elif which == "identical_components" and R >= 2:
            for k in p:
                if isinstance(p[k], np.ndarray) and p[k].shape[:1] == (R,):
                    p[k] = np.array(p[k], float)
                    p[k][1] = p[k][0]
        else:
            ok = False
        if ok:
            p["_structure"] = which
    return p


@st.composite
def _factor_params(draw, kind, R, D, kappa=100.0):
    if kind == "general":
        # PSD, including rank-deficient and zero precision
        rank = draw(st.integers(0, D))
        return {
            "Lambda": draw(spd(R, D, kappa=kappa, psd_rank=rank)),
            "nu": draw(arr((R, D))),
            "ln_beta": draw(arr((R,))),
        }
    if kind == "rank_one":
        return {
            "v": draw(arr((R, D))),
            "g": draw(arr((R,), 0.0, 3.0)),
            "nu": draw(arr((R, D))),
            "ln_beta": draw(arr((R,))),
        }
    if kind == "linear":
        return {"nu": draw(arr((R, D))), "ln_beta": draw(arr((R,)))}
    if kind == "constant":
        return {"ln_beta": draw(arr((R,))), "D": D}
    if kind == "measure":
        return draw(measure_params("measure", R, D, kappa))
    if kind == "density":
        return draw(measure_params("pdf", R, D, kappa))
    raise ValueError(kind)


# ----------------------------------------------------------------------------- conditionals
COND_KINDS = ["full", "diag", "identity", "identity_diag", "nn"]
COND_CTORS = ["Sigma", "Lambda", "all", "Sigma+Lambda"]


@st.composite
def cond_params(draw, kind, R, Dx, Dy, kappa=100.0, zero_M=False):
    """Defining inputs of a linear-Gaussian conditional p(y|x) = N(Mx+b, Sigma)."""
    diag = kind in ("diag", "identity_diag")
    p = {"kind": kind, "Dx": Dx, "Dy": Dy, "R": R}
    p["ctor"] = draw(st.sampled_from(COND_CTORS))
    if kind in ("identity", "identity_diag"):
        assert Dx == Dy
        p["Sigma"] = draw(spd(R, Dy, kappa=kappa, diag=diag))
        _cond_past(draw, p, R, Dy, kappa, diag)
        return p
    if kind == "nn":
        # Sigma has R=1; the batch comes from the control input u [R, Du]
        Du = draw(st.integers(1, 2))
        H = draw(st.integers(1, 3))
        p["Sigma"] = draw(spd(1, Dy, kappa=kappa))
        p["Du"] = Du
        p["W1"] = draw(arr((Du, H), -1, 1))
        p["b1"] = draw(arr((H,), -1, 1))
        p["W2"] = draw(arr((H, Dy * (Dx + 1)), -1.5, 1.5))
        p["b2"] = draw(arr((Dy * (Dx + 1),), -1, 1))
        p["u"] = draw(arr((R, Du), -2, 2))
        # dtype regime: a single-precision control network (float32 weights and control input) next to float64 noise parameters;
        # M(u), b(u) are then float32 NUMBERS (the oracle evaluates the same network in float32), everything else stays float64
        p["f32_net"] = draw(st.sampled_from([False] * 4 + [True]))
        return p
    M = draw(arr((R, Dy, Dx), -1.5, 1.5))
    if zero_M:
        M = np.zeros_like(M)
    p["M"] = M
    p["b"] = draw(arr((R, Dy)))
    p["Sigma"] = draw(spd(R, Dy, kappa=kappa, diag=diag))
    _cond_past(draw, p, R, Dy, kappa, diag)
    if not zero_M and draw(st.sampled_from([False] * 7 + [True])):
        # exact structure of the map / offset / noise (see _exact_structure)
        which = draw(st.sampled_from(["M_zero_row", "M_zero_column", "M_selection", "M_symmetric", "b_exactly_zero", "noise_isotropic",
                                      "M_identity_in_general_class", "identical_components"]))
        M = np.array(p["M"], float)
        ok = True
        if which == "M_zero_row":
            M[:, draw(st.integers(0, Dy - 1)), :] = 0.0
        elif which == "M_zero_column":
            M[:, :, draw(st.integers(0, Dx - 1))] = 0.0
        elif which == "M_selection":
            cols = draw(st.lists(st.integers(0, Dx - 1), min_size=Dy, max_size=Dy))
            M = np.zeros_like(M)
            for i, c_ in enumerate(cols):
                M[:, i, c_] = 1.0
            p["M_int_dtype"] = draw(st.booleans())  # written the way users write a selection matrix: an integer array
        elif which == "M_symmetric" and Dx == Dy:
            M = 0.5 * (M + np.swapaxes(M, 1, 2))
        elif which == "M_identity_in_general_class" and Dx == Dy:
            M = np.broadcast_to(np.eye(Dx), M.shape).copy()
        elif which == "b_exactly_zero":
            p["b"] = np.zeros((R, Dy))
        elif which == "noise_isotropic":
            S = np.array(p["Sigma"], float)
            p["Sigma"] = np.einsum("r,ij->rij", np.einsum("rii->r", S) / Dy, np.eye(Dy))
        elif which == "identical_components" and R >= 2:
            M[1] = M[0]
            p["b"] = np.array(p["b"], float)
            p["b"][1] = p["b"][0]
        else:
            ok = False
        if ok:
            p["M"] = M
            p["_structure"] = which
    return p


def _cond_past(draw, p, R, Dy, kappa, diag):
    """A quarter of the linear conditionals have a past: libx.make_cond first builds them with the noise covariance
    `past_Sigma0`, queries them (transformations, log-conditional integrals: whatever the object memoises gets filled) and
    then brings them to the target noise covariance with update_Sigma; they are judged like freshly built objects."""
    if draw(st.sampled_from([False, False, False, True])):
        p["past_Sigma0"] = draw(spd(R, Dy, kappa=kappa, diag=diag))


def cond_np(p):
    """(M, b, Sigma) [R,...] in numpy from the defining inputs."""
    kind = p["kind"]
    Sig = np.asarray(p["Sigma"], float)
    if kind in ("identity", "identity_diag"):
        R, D = Sig.shape[0], Sig.shape[1]
        return np.tile(np.eye(D)[None], (R, 1, 1)), np.zeros((R, D)), Sig
    if kind == "nn":
        u = np.asarray(p["u"], float)
        if p.get("f32_net"):
            import jax.numpy as jnp  # the user's network, evaluated exactly as the user's function does (float32 jax arithmetic)

            f = lambda a: jnp.asarray(np.asarray(a, float), dtype=jnp.float32)
            out = np.asarray(jnp.tanh(f(p["u"]) @ f(p["W1"]) + f(p["b1"])) @ f(p["W2"]) + f(p["b2"]), dtype=np.float64)
        else:
            out = np.tanh(u @ np.asarray(p["W1"], float) + np.asarray(p["b1"], float)) @ np.asarray(p["W2"], float) + np.asarray(p["b2"], float)
        Dx, Dy = p["Dx"], p["Dy"]
        M = out[:, : Dy * Dx].reshape((-1, Dy, Dx))
        b = out[:, Dy * Dx:]
        return M, b, np.tile(Sig, (u.shape[0], 1, 1))
    return np.asarray(p["M"], float), np.asarray(p["b"], float), Sig


# ----------------------------------------------------------------------------- approximate conditionals
FEATURE_KINDS = ["lrbf", "lsem"]
HET_KINDS = ["exp", "cosh", "heaviside", "relu"]


@st.composite
def feature_params(draw, kind, Dx, Dy, Dk, kappa=30.0):
    """LRBF / LSEM conditional p(y|x) = N(M [x; k(x)] + b, Sigma) (single component)."""
    p = {"kind": kind, "Dx": Dx, "Dy": Dy, "Dk": Dk,
         "M": draw(arr((1, Dy, Dx + Dk), -1.5, 1.5)), "b": draw(arr((1, Dy))),
         "Sigma": draw(spd(1, Dy, kappa=kappa)), "ctor": draw(st.sampled_from(COND_CTORS))}
    if kind == "lrbf":
        p["mu"] = draw(arr((Dk, Dx), -1.5, 1.5))
        p["length_scale"] = draw(arr((Dk, Dx), 0.7, 2.5))
    else:
        # W[:,0] = offset w0 (non-zero in general), W[:,1:] = weights
        p["W"] = draw(arr((Dk, Dx + 1), -1.2, 1.2))
    if draw(st.sampled_from([False] * 5 + [True])):
        # exact structure of the feature model: two identical kernels (the feature covariance is singular although every input
        # matrix is well conditioned), a kernel far outside any p(x) (its expectations underflow), no kernel read-out at all
        which = draw(st.sampled_from(["duplicate_kernel", "kernel_far_outside", "zero_kernel_weights"]))
        ok = True
        if which == "duplicate_kernel" and Dk >= 2:
            for k_ in (("mu", "length_scale") if kind == "lrbf" else ("W",)):
                p[k_] = np.array(p[k_], float)
                p[k_][1] = p[k_][0]
        elif which == "kernel_far_outside":
            if kind == "lrbf":
                p["mu"] = np.array(p["mu"], float)
                p["mu"][0] = 40.0 * np.where(p["mu"][0] < 0, -1.0, 1.0)
            else:
                p["W"] = np.array(p["W"], float)
                p["W"][0, 0] = 30.0
        elif which == "zero_kernel_weights":
            p["M"] = np.array(p["M"], float)
            p["M"][:, :, Dx:] = 0.0
        else:
            ok = False
        if ok:
            p["_structure"] = which
    return p


@st.composite
def het_params(draw, kind, Dx, Dy, Da, Dk, wscale=1.0, kappa=30.0, big_offsets=False):
    """Heteroscedastic conditional: mean Mx+b, covariance AA' + A_k diag(link(Wx+w0)) A_k'."""
    G = draw(spd(1, Da, kappa=kappa, lam_lo=0.5, lam_hi=1.5))
    A = G[:, :Dy, :]  # full row rank, cond(AA') bounded
    W = draw(arr((Dk, Dx + 1), -1.0, 1.0)) * wscale
    # offsets are non-zero (stated domain of C16/C17); scaling by wscale applies to the input weights only below
    W = W.copy()
    W[:, 0] = np.where(W[:, 0] >= 0, W[:, 0] + 0.05, W[:, 0] - 0.05)
    # offset regime: now and then a unit is (numerically) switched off or strongly biased: |w0| ~ 30..45
    if big_offsets and draw(st.sampled_from([False, False, False, False, True])):
        k = draw(st.integers(0, Dk - 1))
        W[k, 0] = draw(st.sampled_from([-1.0, -1.0, 1.0])) * draw(floats(30.0, 45.0))
    if kind in ("heaviside", "relu") and wscale > 0:
        # the step / rectified-linear classes need a non-zero weight vector (h must have positive variance)
        W = W.copy()
        W[:, 1] = np.where(W[:, 1] >= 0, W[:, 1] + 0.05 * wscale, W[:, 1] - 0.05 * wscale)
    return {"kind": kind, "Dx": Dx, "Dy": Dy, "Da": Da, "Dk": Dk, "wscale": wscale,
            "M": draw(arr((1, Dy, Dx), -1.5, 1.5)), "b": draw(arr((1, Dy))), "A": A, "W": W}



@st.composite
def maybe_update(draw, kind, R, D, kappa=100.0, p=0.25):
    """With probability ~p: an in-place update (indices + replacement components of the same kind)."""
    if draw(st.floats(0, 1)) >= p:
        return None
    k = draw(st.integers(1, R))
    idx = list(draw(st.permutations(list(range(R))))[:k])
    return {"idx": idx, "p": draw(measure_params(kind, k, D, kappa))}
