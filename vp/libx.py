"""Builders of library objects from plain case data (imports jax / gaussian_toolbox; call env.bootstrap first)."""
import numpy as np

from . import env

env.bootstrap()
import jax  # noqa: E402
from jax import numpy as jnp  # noqa: E402
from gaussian_toolbox import factor, measure, pdf, conditional  # noqa: E402


def J(x):
    return jnp.asarray(np.asarray(x, dtype=np.float64))


def IDX(idx):
    """index array in a container / dtype that varies deterministically with its content
    (int64 / int32 jax arrays, numpy int64 / uint8 when all entries are non-negative)."""
    idx = [int(i) for i in idx]
    k = (sum(idx) + 3 * len(idx)) % 4
    if k == 0:
        return jnp.array(idx)
    if k == 1:
        return jnp.array(idx, dtype=jnp.int32)
    if k == 2 or min(idx) < 0:
        return np.array(idx, dtype=np.int64)
    return np.array(idx, dtype=np.uint8)


def N(x):
    return np.asarray(x, dtype=np.float64)


MEASURE_KINDS = ["measure", "diag_measure", "pdf", "diag_pdf"]
FACTOR_KINDS = ["general", "rank_one", "linear", "constant", "measure", "density"]
CACHES = ["cold", "sigma", "full"]


def make_measure(kind, p, cache="cold"):
    """p: dict with Lambda, nu, ln_beta (measures) or Sigma, mu (pdfs)."""
    if kind == "measure":
        m = measure.GaussianMeasure(Lambda=J(p["Lambda"]), nu=J(p["nu"]), ln_beta=J(p["ln_beta"]))
    elif kind == "diag_measure":
        m = measure.GaussianDiagMeasure(Lambda=J(p["Lambda"]), nu=J(p["nu"]), ln_beta=J(p["ln_beta"]))
    elif kind == "pdf":
        # dtype regime: an integer-valued mean written as an integer array (see props/_cond.py)
        as_int = bool(p.get("mu_int_dtype")) and bool(np.all(np.asarray(p["mu"]) == np.round(np.asarray(p["mu"]))))
        mu = jnp.asarray(np.asarray(p["mu"]).astype(np.int64)) if as_int else J(p["mu"])
        # class mixture: an exactly diagonal p(x) handed over as a GaussianDiagPDF (see props/_cond.py)
        m = (pdf.GaussianDiagPDF if p.get("as_diag_class") else pdf.GaussianPDF)(Sigma=J(p["Sigma"]), mu=mu)
    elif kind == "diag_pdf":
        m = pdf.GaussianDiagPDF(Sigma=J(p["Sigma"]), mu=J(p["mu"]))
    else:
        raise ValueError(kind)
    warm(m, cache)
    return m


def warm(m, cache):
    if cache == "sigma":
        m.log_integral_light()
    elif cache == "full":
        m.integrate("x")


def measure_params_np(kind, p):
    """(Lambda, nu, ln_beta) in numpy from the defining inputs (independent of the library)."""
    from . import oracle

    if kind in ("measure", "diag_measure"):
        return N(p["Lambda"]), N(p["nu"]), N(p["ln_beta"])
    Sig, mu = N(p["Sigma"]), N(p["mu"])
    Lam = oracle.inv_spd(Sig)
    nu = np.einsum("rde,re->rd", Lam, mu)
    lnm, _ = oracle.ln_mass(Lam, nu, np.zeros(Lam.shape[0]))
    return Lam, nu, -lnm


def make_factor(kind, p):
    if kind == "general":
        return factor.ConjugateFactor(Lambda=J(p["Lambda"]), nu=J(p["nu"]), ln_beta=J(p["ln_beta"]))
    if kind == "rank_one":
        return factor.OneRankFactor(v=J(p["v"]), g=J(p["g"]), nu=J(p["nu"]), ln_beta=J(p["ln_beta"]))
    if kind == "linear":
        return factor.LinearFactor(nu=J(p["nu"]), ln_beta=J(p["ln_beta"]))
    if kind == "constant":
        return factor.ConstantFactor(ln_beta=J(p["ln_beta"]), num_dim=int(p["D"]))
    if kind == "measure":
        return measure.GaussianMeasure(Lambda=J(p["Lambda"]), nu=J(p["nu"]), ln_beta=J(p["ln_beta"]))
    if kind == "density":
        return pdf.GaussianPDF(Sigma=J(p["Sigma"]), mu=J(p["mu"]))
    raise ValueError(kind)


def factor_params_np(kind, p):
    """(Lambda, nu, ln_beta) of the factor in numpy from its defining inputs."""
    if kind in ("general", "measure"):
        return N(p["Lambda"]), N(p["nu"]), N(p["ln_beta"])
    if kind == "rank_one":
        v, g = N(p["v"]), N(p["g"])
        return np.einsum("r,ri,rj->rij", g, v, v), N(p["nu"]), N(p["ln_beta"])
    if kind == "linear":
        nu = N(p["nu"])
        R, D = nu.shape
        return np.zeros((R, D, D)), nu, N(p["ln_beta"])
    if kind == "constant":
        lb = N(p["ln_beta"])
        D = int(p["D"])
        return np.zeros((lb.shape[0], D, D)), np.zeros((lb.shape[0], D)), lb
    if kind == "density":
        return measure_params_np("pdf", p)
    raise ValueError(kind)


def primary_snapshot(obj):
    """Bytes of the primary parameters of a factor/measure (for operand-immutability checks)."""
    names = ["Lambda", "nu", "ln_beta", "v", "g"]
    out = {}
    for n in names:
        a = getattr(obj, n, None)
        if a is not None and not callable(a):
            out[n] = np.asarray(a).copy()
    return out


def snapshot_equal(a, b):
    if a.keys() != b.keys():
        return False
    return all(a[k].shape == b[k].shape and np.array_equal(a[k], b[k]) for k in a)


# ----------------------------------------------------------------------------- conditionals
def make_cond(p):
    """Build the conditional object; returns (obj, kwargs) where kwargs carries u for NN-control."""
    from . import oracle

    kind, ctor = p["kind"], p.get("ctor", "Sigma")
    if p.get("past_Sigma0") is not None and kind != "nn":
        return _cond_with_past(p), {}
    Sig = N(p["Sigma"])
    kw = {}
    if ctor == "Sigma":
        kw = {"Sigma": J(Sig)}
    elif ctor == "Lambda":
        kw = {"Lambda": J(oracle.inv_spd(Sig))}
    elif ctor == "Sigma+Lambda":
        kw = {"Sigma": J(Sig), "Lambda": J(oracle.inv_spd(Sig))}  # the log-determinant is left to the constructor
    else:
        kw = {"Sigma": J(Sig), "Lambda": J(oracle.inv_spd(Sig)), "ln_det_Sigma": J(oracle.slogdet_spd(Sig)[0])}
    as_int = bool(p.get("M_int_dtype")) and bool(np.all(np.asarray(p["M"]) == np.round(np.asarray(p["M"]))))  # only if integer-valued
    Mj = (lambda: jnp.asarray(np.asarray(p["M"]).astype(np.int64))) if as_int else (lambda: J(p["M"]))
    if kind == "full":
        return conditional.ConditionalGaussianPDF(M=Mj(), b=J(p["b"]), **kw), {}
    if kind == "diag":
        return conditional.ConditionalGaussianDiagPDF(M=Mj(), b=J(p["b"]), **kw), {}
    if kind == "identity":
        return conditional.ConditionalIdentityGaussianPDF(**kw), {}
    if kind == "identity_diag":
        return conditional.ConditionalIdentityDiagGaussianPDF(**kw), {}
    if kind == "nn":
        F = (lambda a: jnp.asarray(np.asarray(a, float), dtype=jnp.float32)) if p.get("f32_net") else J
        W1, b1, W2, b2 = F(p["W1"]), F(p["b1"]), F(p["W2"]), F(p["b2"])

        def control_func(u):
            return jnp.tanh(u @ W1 + b1) @ W2 + b2

        c = conditional.NNControlGaussianConditional(
            Sigma=J(Sig), num_cond_dim=int(p["Dx"]), num_control_dim=int(p["Du"]), control_func=control_func
        )
        return c, {"u": F(p["u"])}
    raise ValueError(kind)


def _cond_with_past(p):
    """See gen._cond_past: build with past_Sigma0 (same constructor route), query, then update_Sigma to the target."""
    p0 = {k: v for k, v in p.items() if k != "past_Sigma0"}
    p0["Sigma"] = p["past_Sigma0"]
    c, _ = make_cond(p0)
    Dx, Dy = int(p["Dx"]), int(p["Dy"])
    probe = pdf.GaussianPDF(Sigma=J(0.5 * np.eye(Dx)[None]), mu=J(0.1 * np.ones((1, Dx))))
    probe_q = pdf.GaussianPDF(Sigma=J(0.5 * np.eye(Dx + Dy)[None]), mu=J(0.1 * np.ones((1, Dx + Dy))))
    for warmer in (lambda: c.affine_joint_transformation(probe), lambda: c.affine_conditional_transformation(probe),
                   lambda: c.affine_marginal_transformation(probe), lambda: c.integrate_log_conditional(probe_q),
                   lambda: c.integrate_log_conditional_y(probe, y=J(np.zeros((1, Dy)))), lambda: c.set_y(J(np.zeros((int(c.R), Dy)))),
                   lambda: c.conditional_entropy(probe), lambda: c.mutual_information(probe), lambda: c(J(np.zeros((1, Dx))))):
        try:
            warmer()  # read-only queries; a class that does not offer one of them (or documents R=1 for it) simply skips it
        except Exception:
            pass
    c.update_Sigma(J(p["Sigma"]))
    return c


# ----------------------------------------------------------------------------- approximate conditionals
def make_feature(p):
    from gaussian_toolbox import approximate_conditional as ac

    from . import oracle

    Sig = N(p["Sigma"])
    ctor = p.get("ctor", "Sigma")
    if ctor == "Sigma":
        kw = {"Sigma": J(Sig)}
    elif ctor == "Lambda":
        kw = {"Lambda": J(oracle.inv_spd(Sig))}
    elif ctor == "Sigma+Lambda":
        kw = {"Sigma": J(Sig), "Lambda": J(oracle.inv_spd(Sig))}  # the log-determinant is left to the constructor
    else:
        kw = {"Sigma": J(Sig), "Lambda": J(oracle.inv_spd(Sig)), "ln_det_Sigma": J(oracle.slogdet_spd(Sig)[0])}
    if p["kind"] == "lrbf":
        return ac.LRBFGaussianConditional(M=J(p["M"]), b=J(p["b"]), mu=J(p["mu"]), length_scale=J(p["length_scale"]), **kw)
    return ac.LSEMGaussianConditional(M=J(p["M"]), b=J(p["b"]), W=J(p["W"]), **kw)


def feature_np(p):
    """Returns (M, b, Sigma, kernel) with kernel(X[N,Dx]) -> [N,Dk] as DOCUMENTED:
    LRBF k_i = exp(-sum_d ((x_d - s_id)/l_id)^2 / 2);  LSEM k_i = exp(-(w_i'x + w_i0)^2 / 2)."""
    M, b, S = N(p["M"])[0], N(p["b"])[0], N(p["Sigma"])[0]
    if p["kind"] == "lrbf":
        c, l = N(p["mu"]), N(p["length_scale"])

        def k(X):
            return np.exp(-0.5 * np.sum(((X[:, None, :] - c[None]) / l[None]) ** 2, -1))
    else:
        W = N(p["W"])

        def k(X):
            return np.exp(-0.5 * (X @ W[:, 1:].T + W[:, 0][None]) ** 2)
    return M, b, S, k


HET_CLASSES = {"exp": "HeteroscedasticExpConditional", "cosh": "HeteroscedasticCoshM1Conditional",
               "heaviside": "HeteroscedasticHeavisideConditional", "relu": "HeteroscedasticReLUConditional"}


def make_het(p):
    from gaussian_toolbox import approximate_conditional as ac

    cls = getattr(ac, HET_CLASSES[p["kind"]])
    return cls(M=J(p["M"]), b=J(p["b"]), A=J(p["A"]), W=J(p["W"]))


def het_link(kind, h):
    if kind == "exp":
        return np.exp(h)
    if kind == "cosh":
        return np.cosh(h) - 1.0
    if kind == "heaviside":
        return (h >= 0).astype(float)
    return np.maximum(h, 0.0)



# ----------------------------------------------------------------------------- densities that have a past
def feature_with_past(fails, p, past):
    """Build an LRBF / LSEM conditional; if `past` is given the object is first built with other parameters through the same
    constructor route ({"Sigma0": another noise covariance} and / or {"kernels0": other centres and length scales / other
    weights}), queried (log-conditional integrals and moment matching against a probe density, which fills whatever the object
    memoises), and then brought to the target parameters through the mutation API: the kernel parameters are reassigned and
    update_phi() is called, the noise covariance goes through update_Sigma.  Returns the object (judged afterwards exactly like a
    freshly built one) or None."""
    from .compare import lib

    if not past:
        ok, c = lib(fails, "construct_feature", make_feature, p)
        return c if ok else None
    p0 = dict(p)
    if past.get("Sigma0") is not None:
        p0["Sigma"] = past["Sigma0"]
    if past.get("kernels0"):
        p0.update(past["kernels0"])
    ok, c = lib(fails, "construct_feature", make_feature, p0)
    if not ok:
        return None
    Dx, Dy = int(p["Dx"]), int(p["Dy"])
    probe = pdf.GaussianPDF(Sigma=J(0.3 * np.eye(Dx)[None]), mu=J(0.2 * np.ones((1, Dx))))
    probe_q = pdf.GaussianPDF(Sigma=J(0.4 * np.eye(Dx + Dy)[None]), mu=J(0.1 * np.ones((1, Dx + Dy))))
    lib(fails, "past.integrate_log_conditional_y", lambda: c.integrate_log_conditional_y(probe, y=J(np.zeros((1, Dy)))))
    lib(fails, "past.integrate_log_conditional", lambda: c.integrate_log_conditional(probe_q))
    lib(fails, "past.affine_joint_transformation", lambda: c.affine_joint_transformation(probe))
    ok = True
    if past.get("kernels0"):
        def reparametrise():
            if p["kind"] == "lrbf":
                c.mu, c.length_scale = J(p["mu"]), J(p["length_scale"])
            else:
                W = J(p["W"])
                c.w0, c.W = W[:, 0], W[:, 1:]
            c.update_phi()
        ok, _ = lib(fails, "past.update_phi", reparametrise)
    if ok and past.get("Sigma0") is not None:
        ok, _ = lib(fails, "past.update_Sigma", lambda: c.update_Sigma(J(p["Sigma"])))
    return c if ok else None


def density_with_past(fails, kind, params, upd, warm=None):
    """Build a density; if `upd` is given ({"idx": [...], "p": params of len(idx) components}) the density is first
    queried (sample, marginal, integral; and handed to `warm`, e.g. a conditional's transformations), then updated in
    place.  Returns (object, mu, Sigma) with the CURRENT numpy parameters, or (None, None, None) if the library raised
    (failure appended)."""
    from .compare import lib

    mu, Sig = N(params["mu"]).copy(), N(params["Sigma"]).copy()
    ok, p = lib(fails, "construct_pdf", make_measure, kind, params)
    if not ok:
        return None, None, None
    if upd:
        D = mu.shape[1]
        lib(fails, "past.sample", lambda: p.sample(jax.random.PRNGKey(5), 2))
        lib(fails, "past.get_marginal", lambda: p.get_marginal(jnp.array([D - 1])))
        lib(fails, "past.integrate", lambda: p.integrate("x"))
        if warm is not None:
            lib(fails, "past.warm", lambda: warm(p))
        ok, d = lib(fails, "past.construct_update", make_measure, kind, upd["p"])
        if ok:
            ok, _ = lib(fails, "past.update", lambda: p.update(jnp.array(upd["idx"]), d))
        if not ok:
            return None, None, None
        mu[np.array(upd["idx"])] = N(upd["p"]["mu"])
        Sig[np.array(upd["idx"])] = N(upd["p"]["Sigma"])
    return p, mu, Sig
