"""Generic 'what function is this object' checks built on the quadratic-fit oracle.

evaluate_ln of a Gaussian-form object is a quadratic; we recover (Lam_e, nu_e, c_e) from evaluations
only (never reading Sigma / lnZ / ln_beta), verify on extra points that evaluate_ln really is that
quadratic, and integrate it in closed form with numpy.
"""
import numpy as np

from . import oracle
from .compare import Failure, check, lib
from .libx import J

_EXTRA = np.array([[0.7, -1.3, 0.4, 1.9, -0.6, 0.25, -1.1, 0.9], [-2.1, 0.3, 1.7, -0.8, 0.55, -1.45, 0.6, 1.2],
                   [1.15, 1.35, -0.95, 0.45, -1.75, 0.85, 0.35, -0.65]])


def fit_object(fails, label, obj, D, center=None):
    """Returns (Lam, nu, c) fitted from obj.evaluate_ln, or None (failure appended)."""
    center = np.zeros(D) if center is None else np.asarray(center, float)

    def f(X):
        return np.asarray(obj.evaluate_ln(J(X + center[None])))

    ok, fit = lib(fails, label + ".evaluate_ln", lambda: oracle.fit_quadratic(f, D))
    if not ok:
        return None
    Lam, nu, c = fit
    if not (np.all(np.isfinite(Lam)) and np.all(np.isfinite(nu)) and np.all(np.isfinite(c))):
        fails.append(Failure(label + ":nonfinite", f"{label}: evaluate_ln is not finite at the probe points"))
        return None
    # verify: evaluate_ln really is this quadratic
    X = _EXTRA[:, :D] if D <= 8 else np.resize(_EXTRA, (3, D))
    want, scale = oracle.ln_factor(Lam, nu, c, X)
    ok, got = lib(fails, label + ".evaluate_ln", lambda: f(X))
    if ok:
        check(fails, label + ":not_quadratic", got, want, scale * 10, what=f"{label}: evaluate_ln is not the fitted quadratic")
    # shift back to the original coordinates: f(x) = g(x - center)
    if np.any(center != 0):
        nu0 = nu + np.einsum("rde,e->rd", Lam, center)
        c0 = c - np.einsum("rd,d->r", nu, center) - 0.5 * np.einsum("d,rde,e->r", center, Lam, center)
        nu, c = nu0, c0
    return Lam, nu, c


def fitted_mass(fails, label, Lam, nu, c):
    """ln integral of the fitted quadratic; None if not integrable / ill conditioned."""
    w = np.linalg.eigvalsh(0.5 * (Lam + np.swapaxes(Lam, 1, 2)))
    if np.any(w <= 0):
        fails.append(Failure(label + ":not_integrable", f"{label}: evaluated function has non-positive-definite curvature {w.min():.3g}"))
        return None
    if np.any(w.max(-1) / w.min(-1) > 1e6):
        fails.append(Failure("excluded:ill_conditioned_derived", f"{label}: derived precision has cond > 1e6"))
        return None
    return oracle.ln_mass(Lam, nu, c)


def check_density(fails, label, dens, D, moments=True, tol=1e-8):
    """A probability density: fitted integral is one; exposed mu / Sigma are the mean / covariance of the
    function the object evaluates to."""
    ok, mu0 = lib(fails, label + ".mu", lambda: np.asarray(dens.mu))
    center = mu0[0] if ok and mu0 is not None and mu0.ndim == 2 and mu0.shape[1] == D and np.all(np.isfinite(mu0[0])) else None
    # the fit is centred near the mass (first component's mean, rounded) to keep the probe values O(1)
    if center is not None:
        center = np.round(center * 4) / 4
    fit = fit_object(fails, label, dens, D, center)
    if fit is None:
        return None
    Lam, nu, c = fit
    m = fitted_mass(fails, label, Lam, nu, c)
    if m is None:
        return None
    lnm, sc = m
    check(fails, label + ":integral_not_one", lnm, np.zeros_like(lnm), sc, tol=tol, what=f"{label}: ln of integral of evaluate()")
    if moments:
        mean, cov = oracle.mean_cov(Lam, nu)
        kap = oracle.cond(Lam)
        ok, got = lib(fails, label + ".mu", lambda: np.asarray(dens.mu))
        if ok:
            check(fails, label + ":mu_mismatch", got, mean, (1.0 + np.abs(mean)) * np.maximum(1, kap)[:, None] ** 0.5, tol=tol,
                  what=f"{label}: exposed mu vs mean of evaluated function")
        ok, got = lib(fails, label + ".Sigma", lambda: np.asarray(dens.Sigma))
        if ok:
            sn = np.abs(cov).max((1, 2))[:, None, None] * np.ones_like(cov)
            check(fails, label + ":Sigma_mismatch", got, cov, sn * np.maximum(1, kap)[:, None, None] ** 0.5, tol=tol,
                  what=f"{label}: exposed Sigma vs covariance of evaluated function")
    return Lam, nu, c


def check_measure_mass(fails, label, m, D, tol=1e-8):
    """Reported integral / log-integral (light and full) equal the integral of the evaluated function."""
    fit = fit_object(fails, label, m, D)
    if fit is None:
        return None
    Lam, nu, c = fit
    mm = fitted_mass(fails, label, Lam, nu, c)
    if mm is None:
        return None
    lnm, sc = mm
    for name, fn, islog in [
        ("log_integral_light", lambda: m.log_integral_light(), True),
        ("log_integral", lambda: m.log_integral(), True),
        ("integral_light", lambda: m.integral_light(), False),
        ("integral", lambda: m.integral(), False),
        ("integrate()", lambda: m.integrate(), False),
        ("integrate('1')", lambda: m.integrate("1"), False),
    ]:
        ok, got = lib(fails, f"{label}.{name}", fn)
        if not ok:
            continue
        if islog:
            check(fails, f"{label}:{name}", got, lnm, sc, tol=tol)
        else:
            check(fails, f"{label}:{name}", got, np.exp(lnm), np.exp(lnm) * sc, tol=tol)
    return Lam, nu, c, lnm, sc
