"""Generic 'what function is this object' checks built on the quadratic-fit oracle.

evaluate_ln of a Gaussian-form object is a quadratic; we recover (Lam_e, nu_e, c_e) from evaluations
only (never reading Sigma / lnZ / ln_beta), verify on extra points that evaluate_ln really is that
quadratic, and integrate it in closed form with numpy.
"""
import numpy as np

from . import oracle
from .compare import Failure, check, lib
from .libx import J

_EXTRA = np.array([[0.7, -1.3, 0.4, 1.9, -0.6, 0.25, -1.1, 0.9], [-2.1, 0.3, 1.7, -0.8, 0.55, -1.45, 0.6, 1.2],
                   [1.15, 1.35, -0.95, 0.45, -1.75, 0.85, 0.35, -0.65]])


class Fit:
    """Per-component quadratic  f_r(x) = -(x-c_r)'L_r(x-c_r)/2 + n_r'(x-c_r) + k_r  fitted around c_r ~ the component's
    own mode (so that all derived quantities are well conditioned)."""

    def __init__(self, Lam, centers, nu_c, c_c):
        self.Lam, self.centers, self.nu_c, self.c_c = Lam, centers, nu_c, c_c

    def evaluate(self, x):
        """values [R,N] and forward-error scales at points x [N,D]."""
        vals, scs = [], []
        for r in range(self.Lam.shape[0]):
            v, s_ = oracle.ln_factor(self.Lam[r:r + 1], self.nu_c[r:r + 1], self.c_c[r:r + 1], x - self.centers[r][None])
            vals.append(v[0])
            scs.append(s_[0])
        return np.stack(vals), np.stack(scs)

    def ln_mass(self):
        return oracle.ln_mass(self.Lam, self.nu_c, self.c_c)

    def mean_cov(self):
        d, cov = oracle.mean_cov(self.Lam, self.nu_c)
        return self.centers + d, cov


def _step(obj):
    """probe step ~ the object's own length scale (a power of two; only the placement of the probe points depends on
    it, the fit is verified on further points)."""
    h = 1.0
    try:
        Lm = np.asarray(obj.Lambda, float)
        t = float(np.mean(np.abs(np.einsum("rii->ri", Lm))))
        if np.isfinite(t) and t > 0:
            h = 2.0 ** np.clip(np.round(np.log2(1.0 / np.sqrt(t))), -40, 40)
    except Exception:
        pass
    return h


def fit_object(fails, label, obj, D, center=None):
    """Returns a Fit recovered from obj.evaluate_ln only, or None (failure appended)."""
    h = _step(obj)
    c0 = np.zeros(D) if center is None else np.asarray(center, float)

    def f_at(cvec):
        return lambda X: np.asarray(obj.evaluate_ln(J(X + cvec[None])))

    ok, fit = lib(fails, label + ".evaluate_ln", lambda: oracle.fit_quadratic(f_at(c0), D, h=h))
    if not ok:
        return None
    Lam, nu, c = fit
    if not (np.all(np.isfinite(Lam)) and np.all(np.isfinite(nu)) and np.all(np.isfinite(c))):
        fails.append(Failure(label + ":nonfinite", f"{label}: evaluate_ln is not finite at the probe points"))
        return None
    R = Lam.shape[0]
    centers = np.tile(c0[None], (R, 1))
    # second stage: re-fit every component around its own (estimated) mode, on the grid of the probe step
    w = np.linalg.eigvalsh(0.5 * (Lam + np.swapaxes(Lam, 1, 2)))
    if np.all(w > 0) and np.any(w.max(-1) / w.min(-1) > 1e6):
        fails.append(Failure("excluded:ill_conditioned_derived", f"{label}: evaluated function has curvature with cond > 1e6"))
        return None
    if np.all(w > 0):
        try:
            est = c0[None] + np.einsum("rde,re->rd", oracle.inv_spd(0.5 * (Lam + np.swapaxes(Lam, 1, 2))), nu)
        except Exception:
            est = centers
        if np.all(np.isfinite(est)) and np.max(np.abs(est - centers)) > 2 * h:
            centers = np.round(est / h) * h
            Ls, ns, cs = [], [], []
            for r in range(R):
                ok, fr = lib(fails, label + ".evaluate_ln", lambda: oracle.fit_quadratic(f_at(centers[r]), D, h=h))
                if not ok:
                    return None
                Ls.append(fr[0][r]); ns.append(fr[1][r]); cs.append(fr[2][r])
            Lam, nu, c = np.stack(Ls), np.stack(ns), np.stack(cs)
            if not (np.all(np.isfinite(Lam)) and np.all(np.isfinite(nu)) and np.all(np.isfinite(c))):
                fails.append(Failure(label + ":nonfinite", f"{label}: evaluate_ln is not finite at the probe points"))
                return None
    ft = Fit(Lam, centers, nu, c)
    # verify: evaluate_ln really is this quadratic (points around the first component's centre)
    X = (_EXTRA[:, :D] if D <= 8 else np.resize(_EXTRA, (3, D))) * h + centers[0][None]
    want, scale = ft.evaluate(X)
    ok, got = lib(fails, label + ".evaluate_ln", lambda: np.asarray(obj.evaluate_ln(J(X))))
    if ok:
        check(fails, label + ":not_quadratic", got, want, scale * 10, what=f"{label}: evaluate_ln is not the fitted quadratic")
    return ft


def fitted_mass(fails, label, ft):
    """ln integral of the fitted quadratic; None if not integrable / ill conditioned."""
    Lam = ft.Lam
    w = np.linalg.eigvalsh(0.5 * (Lam + np.swapaxes(Lam, 1, 2)))
    if np.any(w <= 0):
        fails.append(Failure(label + ":not_integrable", f"{label}: evaluated function has non-positive-definite curvature {w.min():.3g}"))
        return None
    if np.any(w.max(-1) / w.min(-1) > 1e6):
        fails.append(Failure("excluded:ill_conditioned_derived", f"{label}: derived precision has cond > 1e6"))
        return None
    return ft.ln_mass()


def check_density(fails, label, dens, D, moments=True, tol=1e-8):
    """A probability density: fitted integral is one; exposed mu / Sigma are the mean / covariance of the
    function the object evaluates to."""
    ok, mu0 = lib(fails, label + ".mu", lambda: np.asarray(dens.mu))
    center = mu0[0] if ok and mu0 is not None and mu0.ndim == 2 and mu0.shape[1] == D and np.all(np.isfinite(mu0[0])) else None
    # first guess of where the mass is (only the placement of the probe points; the fit re-centres itself)
    if center is not None:
        h = _step(dens)
        center = np.round(center / h) * h
    ft = fit_object(fails, label, dens, D, center)
    if ft is None:
        return None
    m = fitted_mass(fails, label, ft)
    if m is None:
        return None
    lnm, sc = m
    check(fails, label + ":integral_not_one", lnm, np.zeros_like(lnm), sc, tol=tol, what=f"{label}: ln of integral of evaluate()")
    if moments:
        # the fitted curvature carries the rounding of second differences of O(|f|) values: moments derived from it are
        # judged at 10x the base tolerance
        tol = 10 * tol
        mean, cov = ft.mean_cov()
        kap = oracle.cond(ft.Lam)
        sd = np.sqrt(np.einsum("rii->ri", cov))
        ok, got = lib(fails, label + ".mu", lambda: np.asarray(dens.mu))
        if ok:
            check(fails, label + ":mu_mismatch", got, mean, sd * np.maximum(1, kap)[:, None] + np.abs(mean) * 1e-6, tol=tol,
                  what=f"{label}: exposed mu vs mean of evaluated function")
        ok, got = lib(fails, label + ".Sigma", lambda: np.asarray(dens.Sigma))
        if ok:
            sn = np.abs(cov).max((1, 2))[:, None, None] * np.ones_like(cov)
            check(fails, label + ":Sigma_mismatch", got, cov, sn * np.maximum(1, kap)[:, None, None], tol=tol,
                  what=f"{label}: exposed Sigma vs covariance of evaluated function")
    return ft


def check_measure_mass(fails, label, m, D, tol=1e-8):
    """Reported integral / log-integral (light and full) equal the integral of the evaluated function.
    Returns (Fit, ln mass, scale) or None."""
    ft = fit_object(fails, label, m, D)
    if ft is None:
        return None
    mm = fitted_mass(fails, label, ft)
    if mm is None:
        return None
    lnm, sc = mm
    for name, fn, islog in [
        ("log_integral_light", lambda: m.log_integral_light(), True),
        ("log_integral", lambda: m.log_integral(), True),
        ("integral_light", lambda: m.integral_light(), False),
        ("integral", lambda: m.integral(), False),
        ("integrate()", lambda: m.integrate(), False),
        ("integrate('1')", lambda: m.integrate("1"), False),
    ]:
        ok, got = lib(fails, f"{label}.{name}", fn)
        if not ok:
            continue
        if islog:
            check(fails, f"{label}:{name}", got, lnm, sc, tol=tol)
        else:
            with np.errstate(over="ignore"):
                check(fails, f"{label}:{name}", got, np.exp(lnm), np.exp(lnm) * sc, tol=tol)
    return ft, lnm, sc
