"""numpy-only reference computations (no jax, no gaussian_toolbox).

Every function returns (value, scale) where scale is the forward-error magnitude: the sum of the
absolute values of the additive terms combined (>= |value|, >= 1 for log-quantities).
"""
import itertools
import math

import numpy as np

LN2PI = math.log(2.0 * math.pi)


def A(x):
    return np.asarray(x, dtype=np.float64)


# ----------------------------------------------------------------------------- conjugate factors
def ln_factor(Lam, nu, lb, x):
    """ln f_r(x_n) = -x'Λx/2 + ν'x + ln β  ->  [R,N]."""
    Lam, nu, lb, x = A(Lam), A(nu), A(lb), A(x)
    q = -0.5 * np.einsum("nd,rde,ne->rn", x, Lam, x)
    l = np.einsum("rd,nd->rn", nu, x)
    qs = 0.5 * np.einsum("nd,rde,ne->rn", np.abs(x), np.abs(Lam), np.abs(x))
    ls = np.einsum("rd,nd->rn", np.abs(nu), np.abs(x))
    val = q + l + lb[:, None]
    scale = 1.0 + qs + ls + np.abs(lb)[:, None]
    return val, scale


def ln_factor_elem(Lam, nu, lb, x):
    """element-wise variant: x[r] paired with component r -> [R]."""
    Lam, nu, lb, x = A(Lam), A(nu), A(lb), A(x)
    q = -0.5 * np.einsum("rd,rde,re->r", x, Lam, x)
    l = np.einsum("rd,rd->r", nu, x)
    qs = 0.5 * np.einsum("rd,rde,re->r", np.abs(x), np.abs(Lam), np.abs(x))
    ls = np.einsum("rd,rd->r", np.abs(nu), np.abs(x))
    return q + l + lb, 1.0 + qs + ls + np.abs(lb)


def slogdet_spd(M):
    """log-determinant of SPD matrices via Cholesky, with its scale (sum |log diag|)."""
    M = A(M)
    L = np.linalg.cholesky(M)
    d = np.log(np.diagonal(L, axis1=-2, axis2=-1))
    return 2.0 * d.sum(-1), 1.0 + 2.0 * np.abs(d).sum(-1)


def cond(M):
    M = A(M)
    if not np.all(np.isfinite(M)):
        return np.full(M.shape[:-2], np.inf)
    w = np.linalg.eigvalsh(0.5 * (M + np.swapaxes(M, -1, -2)))
    return np.max(np.abs(w), -1) / np.maximum(np.min(np.abs(w), -1), 1e-300)


def inv_spd(M):
    M = A(M)
    L = np.linalg.cholesky(M)
    I = np.broadcast_to(np.eye(M.shape[-1]), M.shape)
    Li = np.linalg.solve(L, I)
    return np.swapaxes(Li, -1, -2) @ Li


def ln_mass(Lam, nu, lb):
    """ln ∫ β exp(-x'Λx/2 + ν'x) dx for Λ ≻ 0 -> [R]."""
    Lam, nu, lb = A(Lam), A(nu), A(lb)
    D = Lam.shape[-1]
    Sig = inv_spd(Lam)
    ld, lds = slogdet_spd(Lam)
    nSn = np.einsum("rd,rde,re->r", nu, Sig, nu)
    val = lb + 0.5 * (nSn + D * LN2PI - ld)
    scale = 1.0 + np.abs(lb) + 0.5 * (np.abs(nSn) + D * LN2PI + lds)
    return val, scale


def mean_cov(Lam, nu):
    Sig = inv_spd(Lam)
    return np.einsum("rde,re->rd", Sig, A(nu)), Sig


def mvn_ln(x, mu, Sig):
    """ln N(x_n; mu_r, Sig_r) -> [R,N] and scale."""
    x, mu, Sig = A(x), A(mu), A(Sig)
    D = mu.shape[-1]
    L = np.linalg.cholesky(Sig)
    d = x[None, :, :] - mu[:, None, :]  # [R,N,D]
    z = np.linalg.solve(L, np.swapaxes(d, 1, 2))  # [R,D,N]
    q = 0.5 * np.sum(z**2, axis=1)  # [R,N]
    ld = np.log(np.diagonal(L, axis1=-2, axis2=-1))
    val = -q - ld.sum(-1)[:, None] - 0.5 * D * LN2PI
    scale = 1.0 + q + np.abs(ld).sum(-1)[:, None] + 0.5 * D * LN2PI
    return val, scale


def mvn_ln_elem(x, mu, Sig):
    """ln N(x_r; mu_r, Sig_r) -> [R]."""
    x, mu, Sig = A(x), A(mu), A(Sig)
    D = mu.shape[-1]
    L = np.linalg.cholesky(Sig)
    d = x - mu
    z = np.linalg.solve(L, d[..., None])[..., 0]
    q = 0.5 * np.sum(z**2, axis=-1)
    ld = np.log(np.diagonal(L, axis1=-2, axis2=-1))
    return -q - ld.sum(-1) - 0.5 * D * LN2PI, 1.0 + q + np.abs(ld).sum(-1) + 0.5 * D * LN2PI


# ----------------------------------------------------------------------------- quadratic fit oracle
def fit_quadratic(f, D, h=1.0):
    """Recover (Λ_e, ν_e, c_e) with f(x) = -x'Λx/2 + ν'x + c from evaluations of f (callable on
    [N,D] -> [R,N]) at 0, ±h e_i, h(e_i+e_j).  Returns Lam[R,D,D], nu[R,D], c[R]."""
    pts = [np.zeros(D)]
    for i in range(D):
        e = np.zeros(D)
        e[i] = h
        pts += [e, -e]
    pairs = list(itertools.combinations(range(D), 2))
    for i, j in pairs:
        e = np.zeros(D)
        e[i] = h
        e[j] = h
        pts.append(e)
    X = np.stack(pts)
    F = A(f(X))  # [R,N]
    R = F.shape[0]
    c = F[:, 0]
    nu = np.zeros((R, D))
    Lam = np.zeros((R, D, D))
    for i in range(D):
        fp, fm = F[:, 1 + 2 * i], F[:, 2 + 2 * i]
        nu[:, i] = (fp - fm) / (2 * h)
        Lam[:, i, i] = -(fp + fm - 2 * c) / h**2
    for k, (i, j) in enumerate(pairs):
        fij = F[:, 1 + 2 * D + k]
        # f(h(ei+ej)) = c + h(nu_i+nu_j) - h^2/2 (L_ii + L_jj + 2 L_ij)
        Lij = -((fij - c - h * (nu[:, i] + nu[:, j])) / h**2 + 0.5 * (Lam[:, i, i] + Lam[:, j, j]))
        Lam[:, i, j] = Lij
        Lam[:, j, i] = Lij
    return Lam, nu, c


# ----------------------------------------------------------------------------- Isserlis moments
def moment_tensors(mu, Sig, order):
    """Raw moment tensors E[x], E[xx'], E[x⊗3], E[x⊗4] of N(mu,Sig) (single component) from Isserlis."""
    mu, Sig = A(mu), A(Sig)
    out = [None, mu]
    if order >= 2:
        out.append(Sig + np.einsum("i,j->ij", mu, mu))
    if order >= 3:
        m3 = (
            np.einsum("i,j,k->ijk", mu, mu, mu)
            + np.einsum("ij,k->ijk", Sig, mu)
            + np.einsum("ik,j->ijk", Sig, mu)
            + np.einsum("jk,i->ijk", Sig, mu)
        )
        out.append(m3)
    if order >= 4:
        mm = np.einsum("i,j->ij", mu, mu)
        m4 = np.einsum("ij,kl->ijkl", mm, mm)
        for (a, b, c, d) in [
            ("ij", "kl", "ij", "kl"),
            ("ik", "jl", "ik", "jl"),
            ("il", "jk", "il", "jk"),
        ]:
            m4 = m4 + np.einsum(f"{a},{b}->ijkl", Sig, Sig)
        for s, m in [("ij", "kl"), ("ik", "jl"), ("il", "jk"), ("jk", "il"), ("jl", "ik"), ("kl", "ij")]:
            m4 = m4 + np.einsum(f"{s},{m}->ijkl", Sig, mm)
        out.append(m4)
    return out


def gauss_hermite_nd(mu, Sig, n):
    """Tensor Gauss-Hermite nodes/weights for N(mu,Sig): returns X[Q,D], w[Q] (sum w = 1)."""
    mu, Sig = A(mu), A(Sig)
    D = mu.shape[0]
    t, w = np.polynomial.hermite_e.hermegauss(n)
    w = w / np.sqrt(2 * np.pi)
    L = np.linalg.cholesky(Sig)
    grids = np.meshgrid(*([t] * D), indexing="ij")
    Z = np.stack([g.ravel() for g in grids], -1)
    Ws = np.meshgrid(*([w] * D), indexing="ij")
    W = np.prod(np.stack([g.ravel() for g in Ws], -1), -1)
    return mu[None] + Z @ L.T, W


# ----------------------------------------------------------------------------- Gaussian-form kernels (feature models)
def kernel_forms(p):
    """(K_i, kappa_i, c_i) with k_i(x) = exp(-x'K_i x/2 + kappa_i'x + c_i), from the DOCUMENTED kernels:
    LRBF  k_i = exp(-sum_d ((x_d - s_id)/l_id)^2 / 2);   LSEM  k_i = exp(-(w_i'x + w_i0)^2 / 2)."""
    out = []
    if p["kind"] == "lrbf":
        s_, l_ = A(p["mu"]), A(p["length_scale"])
        for i in range(s_.shape[0]):
            out.append((np.diag(1.0 / l_[i] ** 2), s_[i] / l_[i] ** 2, -0.5 * np.sum((s_[i] / l_[i]) ** 2)))
    else:
        W = A(p["W"])
        for i in range(W.shape[0]):
            w, w0 = W[i, 1:], W[i, 0]
            out.append((np.outer(w, w), -w0 * w, -0.5 * w0**2))
    return out


def _gauss_kernel_expect(mu, Sig, K, kappa, c):
    """E_{N(mu,Sig)}[exp(-x'Kx/2 + kappa'x + c)] and E[x * same] in closed form."""
    D = mu.shape[0]
    Lam = inv_spd(Sig[None])[0]
    P = Lam + K
    P = 0.5 * (P + P.T)
    eta = Lam @ mu + kappa
    Pi = inv_spd(P[None])[0]
    m = Pi @ eta
    ld = np.linalg.slogdet(np.eye(D) + Sig @ K)[1]
    lnZ = c - 0.5 * ld + 0.5 * eta @ m - 0.5 * mu @ Lam @ mu
    return np.exp(lnZ), np.exp(lnZ) * m


def kernel_moments(mu, Sig, forms):
    """E[k] [Dk], E[k x'] [Dk,Dx], E[k k'] [Dk,Dk] under N(mu,Sig)."""
    Dk = len(forms)
    Ek = np.zeros(Dk)
    Ekx = np.zeros((Dk, mu.shape[0]))
    Ekk = np.zeros((Dk, Dk))
    for i, (K, ka, c) in enumerate(forms):
        Ek[i], Ekx[i] = _gauss_kernel_expect(mu, Sig, K, ka, c)
        for j, (K2, ka2, c2) in enumerate(forms):
            if j < i:
                Ekk[i, j] = Ekk[j, i]
            else:
                Ekk[i, j] = _gauss_kernel_expect(mu, Sig, K + K2, ka + ka2, c + c2)[0]
    return Ek, Ekx, Ekk
