"""Pipeline programs for C18: pure functions F(P, d) -> array built from library operations.

P is a dict of jnp arrays (continuous parameters, differentiated), d a data array (evaluation points / observations,
the vmapped axis is its leading axis).  SPD matrices are parametrised as G G' + 0.5 I.
"""
import numpy as np

from . import env

env.bootstrap()
import jax  # noqa: E402
from jax import numpy as jnp  # noqa: E402
from gaussian_toolbox import factor, measure, pdf, conditional  # noqa: E402
from gaussian_toolbox import approximate_conditional as ac  # noqa: E402
from gaussian_toolbox.experimental import truncated_measure as tm  # noqa: E402


def spd(G):
    return jnp.einsum("rij,rkj->rik", G, G) + 0.5 * jnp.eye(G.shape[-1])[None]


def softplus(x):
    return jnp.log1p(jnp.exp(x))


def make_factor(kind, P, pre, g_zero=False):
    if kind == "general":
        return factor.ConjugateFactor(Lambda=spd(P[pre + "G"]), nu=P[pre + "nu"], ln_beta=P[pre + "lb"])
    if kind == "rank_one":
        # g_zero: the rank-one weight is exactly 0.0 (a valid semi-definite factor) while still depending on a parameter
        g = softplus(P[pre + "g"]) * (0.0 if g_zero else 1.0)
        return factor.OneRankFactor(v=P[pre + "v"], g=g, nu=P[pre + "nu"], ln_beta=P[pre + "lb"])
    if kind == "linear":
        return factor.LinearFactor(nu=P[pre + "nu"], ln_beta=P[pre + "lb"])
    if kind == "constant":
        return factor.ConstantFactor(ln_beta=P[pre + "lb"], num_dim=int(P[pre + "nu"].shape[1]))
    raise KeyError(kind)


def factor_param_shapes(kind, R, D):
    sh = {"nu": (R, D), "lb": (R,)}
    if kind == "general":
        sh["G"] = (R, D, D)
    if kind == "rank_one":
        sh["v"] = (R, D)
        sh["g"] = (R,)
    return sh


def make_start(kind, P):
    if kind == "measure":
        return measure.GaussianMeasure(Lambda=spd(P["mG"]), nu=P["mnu"], ln_beta=P["mlb"])
    if kind == "diag_measure":
        return measure.GaussianDiagMeasure(Lambda=jnp.einsum("rd,de->rde", softplus(P["mdiag"]) + 0.3, jnp.eye(P["mdiag"].shape[1])), nu=P["mnu"], ln_beta=P["mlb"])
    if kind == "pdf":
        return pdf.GaussianPDF(Sigma=spd(P["mG"]), mu=P["mnu"])
    if kind == "diag_pdf":
        return pdf.GaussianDiagPDF(Sigma=jnp.einsum("rd,de->rde", softplus(P["mdiag"]) + 0.3, jnp.eye(P["mdiag"].shape[1])), mu=P["mnu"])
    raise KeyError(kind)


def start_param_shapes(kind, R, D):
    sh = {"mnu": (R, D)}
    if kind in ("measure", "pdf"):
        sh["mG"] = (R, D, D)
    else:
        sh["mdiag"] = (R, D)
    if kind in ("measure", "diag_measure"):
        sh["mlb"] = (R,)
    return sh


TERMINALS = ["log_integral", "evaluate_ln", "integrate_x", "integrate_xx", "integrate_lin", "integrate_quad_inner", "integrate_quad_outer",
             "integrate_cubic_inner", "integrate_cubic_outer", "integrate_xAxx", "integrate_xbxx", "integrate_quartic_inner",
             "integrate_quartic_outer", "log_factor", "entropy_kl", "sample"]


def terminal(name, m, P, d):
    """d: [N, D] data (evaluation points, also used as affine offsets)."""
    A = P["tA"]
    a = d[0, : A.shape[0]] if d.shape[1] >= A.shape[0] else jnp.resize(d[0], (A.shape[0],))
    B = P["tB"]
    bD = d[0]
    if name == "log_integral":
        return m.log_integral() + 0.0 * jnp.sum(d)
    if name == "evaluate_ln":
        return m.evaluate_ln(d)
    if name == "integrate_x":
        return m.integrate("x") + 0.0 * jnp.sum(d)
    if name == "integrate_xx":
        return m.integrate("xx'") + 0.0 * jnp.sum(d)
    if name == "integrate_lin":
        return m.integrate("(Ax+a)", A_mat=A, a_vec=a)
    if name == "integrate_quad_inner":
        return m.integrate("(Ax+a)'(Bx+b)", A_mat=A, a_vec=a, B_mat=A)
    if name == "integrate_quad_outer":
        return m.integrate("(Ax+a)(Bx+b)'", A_mat=A, a_vec=a, B_mat=B)
    if name == "integrate_cubic_inner":
        return m.integrate("(Ax+a)(Bx+b)'(Cx+c)", A_mat=A, a_vec=a, B_mat=B, C_mat=B)
    if name == "integrate_cubic_outer":
        return m.integrate("(Ax+a)'(Bx+b)(Cx+c)'", A_mat=A, a_vec=a, B_mat=A, C_mat=B)
    if name == "integrate_xAxx":
        return m.integrate("x(A'x + a)x'", A_mat=bD[None], a_vec=P["tA"][0, :1])
    if name == "integrate_xbxx":
        return m.integrate("xb'xx'", b_vec=bD)
    if name == "integrate_quartic_inner":
        return m.integrate("(Ax+a)'(Bx+b)(Cx+c)'(Dx+d)", A_mat=A, a_vec=a, B_mat=A, C_mat=B, D_mat=B)
    if name == "integrate_quartic_outer":
        return m.integrate("(Ax+a)(Bx+b)'(Cx+c)(Dx+d)'", A_mat=A, a_vec=a, B_mat=B, C_mat=B, D_mat=A)
    if name == "log_factor":
        f = factor.OneRankFactor(v=d[:1], g=jnp.ones(1), nu=P["tB"][:1], ln_beta=jnp.zeros(1))
        return m.integrate("log u(x)", factor=f)
    if name == "entropy_kl":
        p = m.get_density()
        q = pdf.GaussianPDF(Sigma=jnp.tile(jnp.eye(d.shape[1])[None] * 1.3, (1, 1, 1)), mu=d[:1])
        return jnp.concatenate([p.entropy(), p.kl_divergence(q)])
    if name == "sample":
        # reparameterised draws mu + L z with a fixed key: a differentiable function of the parameters
        import jax

        p = m.get_density()
        return p.sample(jax.random.PRNGKey(7), 3).ravel() + 0.0 * jnp.sum(d)
    raise KeyError(name)


def chain(case, P, d):
    """start -> mid ops -> terminal."""
    m = make_start(case["start"], P)
    for k, op in enumerate(case["mid"]):
        pre = f"f{k}"
        if op["op"] == "multiply":
            m = m.multiply(make_factor(op["fkind"], P, pre, op.get("g_zero", False)), update_full=op["update_full"])
        elif op["op"] == "hadamard":
            m = m.hadamard(make_factor(op["fkind"], P, pre, op.get("g_zero", False)), update_full=op["update_full"])
        elif op["op"] == "product":
            m = m.product()
        elif op["op"] == "get_density":
            m = m.get_density()
        elif op["op"] == "slice":
            m = m.slice(jnp.array(op["idx"]))
        else:
            raise KeyError(op["op"])
    return terminal(case["terminal"], m, P, d)


# ----------------------------------------------------------------------------------------------- conditional pipelines
COND_PIPES = ["joint_eval", "marginal_eval", "bayes_posterior", "set_y_evidence", "cond_entropies", "log_conditional",
              "condition_on_dims", "kalman_scan", "lrbf_marginal", "lsem_log_conditional_y", "het_moments", "het_bound", "truncated", "nn_control", "update_in_program", "condition_explicit_traced"]


def cond_param_shapes(pipe, Dx, Dy, kind):
    sh = {"pG": (1, Dx, Dx), "pmu": (1, Dx)}
    if kind in ("full", "diag"):
        sh.update({"M": (1, Dy, Dx), "b": (1, Dy)})
    if kind in ("diag", "identity_diag"):
        sh["Sdiag"] = (1, Dy)
    else:
        sh["SG"] = (1, Dy, Dy)
    if pipe in ("lrbf_marginal",):
        sh.update({"FM": (1, Dy, Dx + 2), "Fb": (1, Dy), "Fc": (2, Dx), "Fl": (2, Dx)})
    if pipe in ("lsem_log_conditional_y",):
        sh.update({"FM": (1, Dy, Dx + 2), "Fb": (1, Dy), "FW": (2, Dx + 1)})
    if pipe in ("het_moments", "het_bound"):
        sh.update({"HM": (1, Dy, Dx), "Hb": (1, Dy), "HA": (1, Dy, Dy), "HW": (1, Dx + 1)})
    if pipe == "kalman_scan":
        sh.update({"KA": (1, Dx, Dx), "Kb": (1, Dx), "KQ": (1, Dx, Dx)})
    if pipe == "condition_explicit_traced":
        sh.update({"ia": (Dx,), "ib": (Dy,)})  # index lists carried as (rounded) numbers, so that they are traced under jit
    if pipe == "update_in_program":
        sh = {"pG": (1, Dx, Dx), "pmu": (1, Dx), "qG": (3, Dx, Dx), "qmu": (3, Dx), "uG": (2, Dx, Dx), "umu": (2, Dx)}
    if pipe == "nn_control":
        sh = {"pG": (1, Dx, Dx), "pmu": (1, Dx), "SG": (1, Dy, Dy), "NW1": (2, 3), "Nb1": (3,), "NW2": (3, Dy * (Dx + 1)), "Nb2": (Dy * (Dx + 1),), "Nu": (1, 2)}
    return sh


def make_cond(kind, P):
    if kind in ("diag", "identity_diag"):
        S = jnp.einsum("rd,de->rde", softplus(P["Sdiag"]) + 0.3, jnp.eye(P["Sdiag"].shape[1]))
    else:
        S = spd(P["SG"])
    if kind == "full":
        return conditional.ConditionalGaussianPDF(M=P["M"], b=P["b"], Sigma=S)
    if kind == "diag":
        return conditional.ConditionalGaussianDiagPDF(M=P["M"], b=P["b"], Sigma=S)
    if kind == "identity":
        return conditional.ConditionalIdentityGaussianPDF(Sigma=S)
    if kind == "identity_diag":
        return conditional.ConditionalIdentityDiagGaussianPDF(Sigma=S)
    raise KeyError(kind)


HET = {"exp": ac.HeteroscedasticExpConditional, "cosh": ac.HeteroscedasticCoshM1Conditional,
       "heaviside": ac.HeteroscedasticHeavisideConditional, "relu": ac.HeteroscedasticReLUConditional}


def cond_pipe(case, P, d):
    """d: [N, Dx+Dy] rows (x_n, y_n)."""
    pipe, kind = case["pipe"], case["kind"]
    Dx, Dy = case["Dx"], case["Dy"]
    x, y = d[:, :Dx], d[:, Dx:]
    px = pdf.GaussianPDF(Sigma=spd(P["pG"]), mu=P["pmu"])
    if pipe == "nn_control":
        # NN-controlled conditional used inside the transformed function (it holds a Python callable, so it is not a pytree leaf)
        ctrl = lambda u: jnp.tanh(u @ P["NW1"] + P["Nb1"]) @ P["NW2"] + P["Nb2"]
        nn = conditional.NNControlGaussianConditional(Sigma=spd(P["SG"]), num_cond_dim=Dx, num_control_dim=2, control_func=ctrl)
        u = P["Nu"]
        j = nn.affine_joint_transformation(px, u=u)
        post = nn.affine_conditional_transformation(px, u=u).condition_on_x(y[:1])
        return jnp.concatenate([j.evaluate_ln(d).ravel(), post.mu.ravel(), nn.integrate_log_conditional_y(px, u=u, y=y[:1]).ravel(),
                                nn.set_y(y[:1], u=u).evaluate_ln(x).ravel()])
    if pipe == "update_in_program":
        # in-place update inside the transformed function: a three-component density receives two replacement components,
        # one of them twice (index array with a repetition; both writes carry the same component, so the result is unambiguous)
        q = pdf.GaussianPDF(Sigma=spd(P["qG"]), mu=P["qmu"])
        u = pdf.GaussianPDF(Sigma=spd(P["uG"]), mu=P["umu"])
        q.update(jnp.array([2, 0, 2]), u.slice(jnp.array([0, 1, 0])))
        return jnp.concatenate([q.evaluate_ln(x).ravel(), q.integrate("xx'").ravel(), q.entropy().ravel()])
    if pipe in ("lrbf_marginal", "lsem_log_conditional_y", "het_moments", "het_bound", "truncated"):
        c = None
    else:
        c = make_cond(kind, P)
    if pipe == "condition_explicit_traced":
        # condition_on_explicit with index lists that are arguments of the transformed function (traced under jit / vmap):
        # partially observed filters pass per-step missing-data patterns this way
        j = c.affine_joint_transformation(px)
        ia = jnp.round(P["ia"]).astype(jnp.int32)
        ib = jnp.round(P["ib"]).astype(jnp.int32)
        pc = j.condition_on_explicit(ib, ia)
        return pc(d[:, ib]).evaluate_ln(d[:, ia]).ravel()
    if pipe == "joint_eval":
        return c.affine_joint_transformation(px).evaluate_ln(d)
    if pipe == "marginal_eval":
        return c.affine_marginal_transformation(px).evaluate_ln(y)
    if pipe == "bayes_posterior":
        post = c.affine_conditional_transformation(px).condition_on_x(y[:1])
        return jnp.concatenate([post.mu.ravel(), post.evaluate_ln(x).ravel()])
    if pipe == "set_y_evidence":
        f = c.set_y(y[:1])
        u = px.multiply(f, update_full=True)
        return jnp.concatenate([u.log_integral(), u.integrate("x").ravel()])
    if pipe == "cond_entropies":
        return jnp.concatenate([c.conditional_entropy(px), c.mutual_information(px)]) + 0.0 * jnp.sum(d)
    if pipe == "log_conditional":
        pyx = c.affine_joint_transformation(px)
        perm = jnp.array(list(range(Dx, Dx + Dy)) + list(range(Dx)))
        q = pdf.GaussianPDF(Sigma=pyx.Sigma[:, perm][:, :, perm], mu=pyx.mu[:, perm] + 0.1)
        return jnp.concatenate([c.integrate_log_conditional(q), c.integrate_log_conditional_y(px, y=y[:1])])
    if pipe == "condition_on_dims":
        j = c.affine_joint_transformation(px)
        cc = j.condition_on(case["_dims_arr"])  # concrete index array created outside the transformed function
        xa = d[:1, : len(case["dims"])]
        return cc.condition_on_x(xa).mu.ravel()
    if pipe == "kalman_scan":
        sc = conditional.ConditionalGaussianPDF(M=P["KA"], b=P["Kb"], Sigma=spd(P["KQ"]))

        def step(p, yt):
            pred = sc.affine_marginal_transformation(p)
            ll = c.affine_marginal_transformation(pred).evaluate_ln(yt[None])[0, 0]
            post = c.affine_conditional_transformation(pred).condition_on_x(yt[None])
            return post, ll

        pT, lls = jax.lax.scan(step, px, y)
        return jnp.concatenate([pT.mu.ravel(), lls])
    if pipe == "lrbf_marginal":
        f = ac.LRBFGaussianConditional(M=P["FM"], b=P["Fb"], mu=P["Fc"], length_scale=softplus(P["Fl"]) + 0.7, Sigma=spd(P["SG"]))
        return f.affine_marginal_transformation(px).evaluate_ln(y)
    if pipe == "lsem_log_conditional_y":
        f = ac.LSEMGaussianConditional(M=P["FM"], b=P["Fb"], W=P["FW"], Sigma=spd(P["SG"]))
        return f.integrate_log_conditional_y(px, y=y[:1])
    if pipe in ("het_moments", "het_bound"):
        W = P["HW"]
        if case["link"] in ("heaviside", "relu"):
            # weights bounded away from zero (the step / ReLU classes divide by them); the kink h = 0 may lie anywhere,
            # also inside the mass of p(x): the bound is a smooth function of the parameters there as well
            W = jnp.concatenate([W[:, :1], 0.1 + softplus(W[:, 1:])], axis=1)
            if case.get("dead_unit"):
                # the noise unit is switched off for every x that carries mass (offset -80: the truncated mass beyond h = 0 is
                # exactly 0.0 in float64); values and gradients must stay finite
                W = W.at[:, 0].add(-80.0)
        h = HET[case["link"]](M=P["HM"], b=P["Hb"], A=spd(P["HA"]), W=W)
        if pipe == "het_moments":
            py = h.affine_marginal_transformation(px)
            return jnp.concatenate([py.mu.ravel(), py.Sigma.ravel()]) + 0.0 * jnp.sum(d)
        return h.integrate_log_conditional_y(px, y[:1])
    if pipe == "truncated":
        m = measure.GaussianMeasure(Lambda=spd(P["pG"])[:, :1, :1], nu=P["pmu"][:, :1], ln_beta=P["pmu"][:, 0] * 0.3)
        t = tm.TruncatedGaussianMeasure(measure=m, lower_limit=-0.4, upper_limit=1.1)
        return jnp.concatenate([t.integrate("1"), t.integrate("x").ravel(), t.integrate("x**k", k=3).ravel(), t(d[:, :1]).ravel()])
    raise KeyError(pipe)
