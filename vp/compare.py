"""The single tolerance rule (DESIGN 1.3).

close(got, want, scale) passes iff shapes are equal, everything is finite where the reference is
finite and |got - want| <= TOL * scale, where `scale` is the forward-error magnitude computed by
the oracle (sum of absolute values of the additive terms it combined; >= |want|).
"""
import numpy as np

TOL = 1e-8


class Failure(dict):
    """A property failure observed on one case: label (stable bucket id) + human detail."""

    def __init__(self, label, msg, **extra):
        super().__init__(label=label, msg=msg, **extra)

    @property
    def label(self):
        return self["label"]


def to_np(x):
    return np.asarray(x, dtype=np.float64)


def close(got, want, scale=None, tol=TOL, what=""):
    """Return None if close, else a short message."""
    try:
        got = to_np(got)
    except Exception as e:  # not an array at all
        return f"{what}: result is not numeric ({type(got).__name__}: {e})"
    want = to_np(want)
    if got.shape != want.shape:
        return f"{what}: shape {got.shape} != expected {want.shape}"
    if scale is None:
        scale = np.maximum(1.0, np.abs(want))
    scale = np.broadcast_to(to_np(scale), want.shape)
    if not np.all(np.isfinite(want)):
        # reference itself not finite: only require identical non-finite pattern
        m = np.isfinite(want)
        if not np.array_equal(np.isfinite(got), m):
            return f"{what}: finiteness pattern differs"
        got, want, scale = got[m], want[m], scale[m]
    if not np.all(np.isfinite(got)):
        return f"{what}: non-finite result {got.ravel()[:4]}"
    err = np.abs(got - want)
    # absolute floor: differences in the subnormal range (XLA flushes denormals to zero) are never judged
    scale = np.maximum(scale, 1e-280)
    bad = err > tol * np.maximum(scale, 1e-300)
    if np.any(bad):
        i = int(np.argmax(err / np.maximum(scale, 1e-300)))
        return (
            f"{what}: max rel err {float((err / np.maximum(scale, 1e-300)).ravel()[i]):.3e} "
            f"(got {got.ravel()[i]!r}, want {want.ravel()[i]!r}, scale {scale.ravel()[i]:.3g}, "
            f"abs diff {err.ravel()[i]:.3e}, at flat index {i} of shape {want.shape})"
        )
    return None


def check(fails, label, got, want, scale=None, tol=TOL, what=None, **extra):
    m = close(got, want, scale, tol, what or label)
    if m is not None:
        try:
            resid = (to_np(got) - to_np(want)).ravel()[:8].tolist() if to_np(got).shape == to_np(want).shape else None
        except Exception:
            resid = None
        fails.append(Failure(label, m, residual=resid, **extra))
        return False
    return True


class LibRaised(Exception):
    pass


RESOURCE_MARKERS = ("Cannot allocate memory", "RESOURCE_EXHAUSTED", "Out of memory", "out of memory", "LLVM compilation error",
                    "Unable to allocate", "Failed to allocate")


class ResourceExhausted(SystemExit):
    """Raised instead of recording a failure when an exception in library code is the machine running out of memory (or of
    memory mappings).  A SystemExit subclass: Hypothesis re-raises it at once instead of shrinking the case, and the shard ends as
    a harness error (exit 2, inconclusive)."""


def lib(fails, label, fn, *a, **k):
    """Run library code; an exception there is a property failure (in-domain input), not a harness error.
    Returns (ok, value)."""
    try:
        return True, fn(*a, **k)
    except Exception as e:  # noqa: BLE001 - library under test
        import traceback

        if isinstance(e, MemoryError) or any(t in str(e) for t in RESOURCE_MARKERS):
            # the machine ran out of memory while compiling / running: inconclusive (harness error, exit 2), never a violation
            raise ResourceExhausted(f"{label}: {type(e).__name__}: {str(e)[:200]}") from e

        tb = traceback.format_exc().splitlines()
        # keep only the innermost library frames
        keep = [l for l in tb if "gaussian_toolbox" in l][-3:]
        fails.append(
            Failure(
                label + ":raises",
                f"{label}: library raised {type(e).__name__}: {str(e)[:300]}",
                exc=type(e).__name__,
                frames=keep,
            )
        )
        return False, None
