"""Sub-check protocol.

A property module exposes SUBS = [Sub(...)].  A Sub is
  name        : str
  pool(tier)  : list of shape tuples / discrete configurations, simplest first
  strategy(shapes) : Hypothesis strategy -> case (plain dict; numpy arrays allowed, converted by jsonable)
  run(case)   : -> list[Failure]    (case has plain lists; library exceptions -> Failure, oracle errors propagate)
  nontrivial(case) : bool
  labels(case): list[str] histogram classes
  examples    : {'quick': n, 'thorough': n}   examples per shard
  shards      : {'quick': k, 'thorough': k}
  rule        : str  (non-triviality rule, for the evidence file)
"""
from dataclasses import dataclass, field
from typing import Callable, Dict, List


@dataclass
class Sub:
    name: str
    pool: Callable
    strategy: Callable
    run: Callable
    nontrivial: Callable = lambda case: True
    labels: Callable = lambda case: []
    examples: Dict[str, int] = field(default_factory=lambda: {"quick": 100, "thorough": 1000})
    shards: Dict[str, int] = field(default_factory=lambda: {"quick": 2, "thorough": 8})
    rule: str = ""
    tol_note: str = ""
