"""Structural comparison of two library results (arrays, tuples, or Gaussian-form objects)."""
import numpy as np

from .compare import RESOURCE_MARKERS, Failure, ResourceExhausted, check, lib

ATTRS = ["Lambda", "nu", "ln_beta", "Sigma", "mu", "ln_det_Sigma", "ln_det_Lambda", "lnZ", "M", "b"]


def _is_arr(x):
    return isinstance(x, (int, float, np.ndarray)) or (hasattr(x, "shape") and hasattr(x, "dtype"))


LOG_ATTRS = {"ln_beta", "ln_det_Sigma", "ln_det_Lambda", "lnZ"}


def _scale(a, b, kap, floor=0.0):
    """floor: absolute floor of the scale.  Log-quantities (log-constants, log-determinants, log-integrals) have natural scale
    >= 1 (tolerance rule of DESIGN 1.3: an absolute error of 1e-8 in ln u is a relative error of 1e-8 in u): a value that
    happens to be ~0 is still the sum of terms of ordinary size."""
    a, b = np.asarray(a, float), np.asarray(b, float)
    if a.shape != b.shape:
        return None
    m = np.maximum(np.abs(a), np.abs(b))
    g = np.max(m) if m.size else 0.0
    return np.maximum(np.maximum(np.maximum(m, 0.01 * g), 1e-6 * (1.0 + g)), floor) * kap + 1e-12 * kap


def compare(fails, label, a, b, kap=1.0, pts=None, tol=1e-8, attrs=ATTRS, floor=0.0):
    """a: result under test, b: reference result (same op on the general / sliced object)."""
    if a is None and b is None:
        return
    if _is_arr(a) and _is_arr(b):
        a_, b_ = np.asarray(a, float), np.asarray(b, float)
        if a_.shape != b_.shape:
            fails.append(Failure(label + ":shape", f"{label}: shape {a_.shape} vs reference {b_.shape}"))
            return
        check(fails, label, a_, b_, _scale(a_, b_, kap, floor), tol=tol)
        return
    if isinstance(a, (tuple, list)) and isinstance(b, (tuple, list)):
        if len(a) != len(b):
            fails.append(Failure(label + ":len", f"{label}: {len(a)} vs {len(b)} results"))
            return
        for i, (x, y) in enumerate(zip(a, b)):
            compare(fails, f"{label}[{i}]", x, y, kap, pts, tol, attrs, floor)
        return
    if _is_arr(a) != _is_arr(b):
        fails.append(Failure(label + ":type", f"{label}: result kinds differ ({type(a).__name__} vs {type(b).__name__})"))
        return
    # objects
    for nm in attrs:
        va, vb = getattr(a, nm, None), getattr(b, nm, None)
        if va is None or vb is None or callable(va) or callable(vb):
            continue
        va_, vb_ = np.asarray(va, float), np.asarray(vb, float)
        if va_.shape != vb_.shape:
            fails.append(Failure(f"{label}.{nm}:shape", f"{label}.{nm}: shape {va_.shape} vs reference {vb_.shape}"))
            continue
        check(fails, f"{label}.{nm}", va_, vb_, _scale(va_, vb_, kap, 1.0 if nm in LOG_ATTRS else 0.0), tol=tol)
    if pts is not None and hasattr(a, "evaluate_ln") and hasattr(b, "evaluate_ln"):
        from .libx import J

        ok1, ea = lib(fails, label + ".evaluate_ln", lambda: a.evaluate_ln(J(pts)))
        ok2, eb = lib(fails, label + ".evaluate_ln(ref)", lambda: b.evaluate_ln(J(pts)))
        if ok1 and ok2:
            ea_, eb_ = np.asarray(ea, float), np.asarray(eb, float)
            if ea_.shape != eb_.shape:
                fails.append(Failure(label + ".evaluate_ln:shape", f"{label}: evaluate_ln shape {ea_.shape} vs {eb_.shape}"))
            else:
                check(fails, label + ".evaluate_ln", ea_, eb_, (1.0 + np.maximum(np.abs(ea_), np.abs(eb_))) * kap, tol=tol)


def both(fails, label, fa, fb):
    """Run the same operation on both sides; an exception on one side only is a failure.
    Returns (ok, ra, rb)."""
    ea = eb = None
    ra = rb = None
    try:
        ra = fa()
    except Exception as e:  # noqa: BLE001
        ea = e
    try:
        rb = fb()
    except Exception as e:  # noqa: BLE001
        eb = e
    if ea is None and eb is None:
        return True, ra, rb
    for e_ in (ea, eb):
        if e_ is not None and (isinstance(e_, MemoryError) or any(t in str(e_) for t in RESOURCE_MARKERS)):
            raise ResourceExhausted(f"{label}: {type(e_).__name__}: {str(e_)[:200]}") from e_  # inconclusive, never a finding
    if ea is not None and eb is not None:
        # both refuse: consistent behaviour (not a differential finding); counted so that vacuity is visible
        fails.append(Failure("excluded:both_raise:" + label, f"{type(ea).__name__}: {str(ea)[:160]} | {type(eb).__name__}: {str(eb)[:160]}"))
        return False, None, None
    side = "specialised/sliced" if ea is not None else "reference"
    e = ea or eb
    fails.append(Failure(label + ":one_sided_raise", f"{label}: only the {side} side raised {type(e).__name__}: {str(e)[:200]}"))
    return False, None, None
