"""C19 - samples follow the density's law and are reproducible."""
import numpy as np
from hypothesis import strategies as st

from .. import gen, oracle
from ..compare import Failure, check, lib
from ..sub import Sub

RULE = ("Non-trivial: D >= 2 with |correlation| >= 0.5 in some component and R >= 2, so that the pairing of Cholesky factors with "
        "components is visible.")
BOUNDS = {"R": "1..7 and 20", "D": "1..6 and 17, 24", "kappa": "<=1e4", "n": "1, 7, 33, 2000, 4097, 2^20+4097 (structural); 200000 (statistical)"}
ASSUMPTIONS = [
    "structural oracle: whitening the draws of component r with numpy's Cholesky factor of Sigma_r reproduces, as a multiset, the "
    "standard-normal stream jax.random.normal generates from the same key (any arrangement of the stream is accepted)",
    "a sampler that fails the structural match is NOT reported: the statistical battery (mean, covariance, cross-component correlation, serial "
    "dependence at lags 1-8 / reversed / half-shifted order within 6 standard errors, tail counts, KS p-value > 1e-9 at n = 200000) decides instead",
]


def _pool(tier):
    base = [(1, 1), (2, 2), (3, 3), (2, 4), (4, 2), (3, 1), (6, 2), (5, 3), (17, 2), (2, 20), (24, 1)]
    if tier == "thorough":
        base += [(4, 4), (1, 3), (4, 1), (2, 3), (7, 1), (6, 3)]
    return base


def _strategy(stat):
    def make(shapes):
        @st.composite
        def s(draw):
            D, R = draw(st.sampled_from(shapes))
            kappa = draw(st.sampled_from([10.0, 1e3, 1e4]))
            n = 200000 if stat else draw(st.sampled_from([1, 7, 2000, 33, 4097]))
            if not stat and R * D <= 4 and draw(st.sampled_from([False] * 7 + [True])):
                n = 2**20 + 4097  # beyond a million draws (block-wise generation)
            case = {"D": D, "R": R, "n": n, "stat": stat, "p": draw(gen.measure_params("pdf", R, D, kappa)),
                    "seed": draw(st.integers(0, 2**31 - 1)), "seed2": draw(st.integers(0, 2**31 - 1)),
                    "typed_key": draw(st.booleans()), "diag": False,
                    # PRNG implementation of typed keys: threefry (default) or the RBG variants ("arbitrary keys")
                    "key_impl": draw(st.sampled_from([None, None, None, "rbg", "unsafe_rbg"]))}
            # far-mean regime: the mean lies 1e4 / 1e6 standard deviations away from the origin
            far = draw(st.sampled_from([0.0] * 5 + [1e4, 1e6]))
            if far:
                sd = np.sqrt(np.einsum("rii->ri", np.asarray(case["p"]["Sigma"], float)))
                case["p"] = dict(case["p"], mu=np.asarray(case["p"]["mu"], float) + far * sd * np.where(draw(gen.arr(sd.shape, -1, 1)) < 0, -1.0, 1.0))
            case["far"] = far
            # the law is that of the object's CURRENT parameters: sometimes the density is sampled, then updated in
            # place, then sampled again
            if not stat and draw(st.sampled_from([False, False, True])):
                k = draw(st.integers(1, R))
                case["update_idx"] = list(draw(st.permutations(list(range(R))))[:k])
                case["update"] = draw(gen.measure_params("pdf", k, D, kappa))
            return case
        return s()
    return make


def _key(case, seed):
    import jax

    if case["typed_key"]:
        return jax.random.key(seed, impl=case["key_impl"]) if case.get("key_impl") else jax.random.key(seed)
    return jax.random.PRNGKey(seed)


def _statistical(fails, x, mu, Sig, tag):
    """x [n,R,D] ~ N(mu_r, Sig_r) independent across n and r?  All thresholds at 6 standard errors."""
    from scipy import stats

    n, R, D = x.shape
    L = np.linalg.cholesky(Sig)
    worst = 0.0
    for r in range(R):
        d = x[:, r, :] - mu[r]
        m = d.mean(0)
        se_m = np.sqrt(np.diag(Sig[r]) / n)
        z = np.max(np.abs(m) / se_m)
        worst = max(worst, z)
        if z > 6:
            fails.append(Failure(tag + ":mean", f"{tag}: sample mean of component {r} off by {z:.1f} standard errors"))
        C = d.T @ d / n
        se_c = np.sqrt((np.outer(np.diag(Sig[r]), np.diag(Sig[r])) + Sig[r] ** 2) / n)
        z = np.max(np.abs(C - Sig[r]) / se_c)
        worst = max(worst, z)
        if z > 6:
            fails.append(Failure(tag + ":covariance", f"{tag}: sample covariance of component {r} off by {z:.1f} standard errors"))
        w = np.linalg.solve(L[r], d.T).T  # whitened
        for k in range(D):
            p = stats.kstest(w[:, k], "norm").pvalue
            if p < 1e-9:
                fails.append(Failure(tag + ":ks", f"{tag}: whitened coordinate {k} of component {r} is not standard normal (KS p={p:.2e})"))
        # independence between draws: serial correlation at several lags (same and different coordinates), pairing of
        # draw t with draw n-1-t (antithetic constructions) and with draw t + n/2
        worst_dep, which = 0.0, ""
        for lagk in (1, 2, 3, 5, 8):
            cc = (w[lagk:].T @ w[:-lagk]) / np.sqrt(n - lagk)
            if np.max(np.abs(cc)) > worst_dep:
                worst_dep, which = float(np.max(np.abs(cc))), f"lag {lagk}"
        pairings = [("reversed order", w[::-1]), ("half shift", np.roll(w, n // 2, axis=0)), ("third shift", np.roll(w, n // 3, axis=0))]
        pairings += [(f"shift 2^{k}", np.roll(w, 2**k, axis=0)) for k in (12, 16, 20) if 2**k < n // 2 + 1]
        for name, other in pairings:
            if n % 2 == 1 and name == "reversed order":
                a_, b_ = np.delete(w, n // 2, 0), np.delete(other, n // 2, 0)  # the middle draw pairs with itself
            else:
                a_, b_ = w, other
            # reversal and the half shift are involutions (each pair is counted twice); the other shifts are not
            cc = (a_.T @ b_) / np.sqrt(a_.shape[0]) / (np.sqrt(2.0) if name in ("reversed order", "half shift") else 1.0)
            if np.max(np.abs(cc)) > worst_dep:
                worst_dep, which = float(np.max(np.abs(cc))), name
        if worst_dep > 6:
            fails.append(Failure(tag + ":serial_dependence", f"{tag}: draws of component {r} are dependent ({which}: {worst_dep:.1f} s.e.)"))
        # tails: counts beyond 3, 3.5 and 4 standard deviations (clipping / truncation of rare values)
        for thr, pt in ((3.0, 2.6997960632601866e-03), (3.5, 4.6525815807105e-04), (4.0, 6.334248366623996e-05)):
            cnt = float(np.sum(np.abs(w) > thr))
            exp_ = pt * w.size
            if abs(cnt - exp_) > 6 * np.sqrt(exp_ * (1 - pt)) + 1:
                fails.append(Failure(tag + ":tails", f"{tag}: component {r}: {cnt:.0f} whitened values beyond {thr} sd, expected {exp_:.1f}"))
        for r2 in range(r + 1, R):
            w2 = np.linalg.solve(L[r2], (x[:, r2, :] - mu[r2]).T).T
            cc = (w.T @ w2) / np.sqrt(n)
            if np.max(np.abs(cc)) > 6:
                fails.append(Failure(tag + ":cross_component", f"{tag}: components {r},{r2} correlated ({np.max(np.abs(cc)):.1f} s.e.)"))
    return worst


def _run(case):
    from .. import libx
    import jax

    fails = []
    D, R, n = case["D"], case["R"], case["n"]
    mu, Sig = np.asarray(case["p"]["mu"], float), np.asarray(case["p"]["Sigma"], float)
    ok, p = lib(fails, "construct_pdf", libx.make_measure, "pdf", case["p"])
    if not ok:
        return fails
    if case.get("update") is not None:
        import jax.numpy as jnp

        lib(fails, "sample_before_update", lambda: p.sample(_key(case, case["seed2"]), 2))
        ok, d = lib(fails, "construct_update", libx.make_measure, "pdf", case["update"])
        if ok:
            ok, _ = lib(fails, "update", lambda: p.update(jnp.array(case["update_idx"]), d))
        if not ok:
            return fails
        mu, Sig = mu.copy(), Sig.copy()
        mu[np.array(case["update_idx"])] = np.asarray(case["update"]["mu"], float)
        Sig[np.array(case["update_idx"])] = np.asarray(case["update"]["Sigma"], float)
    ok, x = lib(fails, "sample", lambda: np.asarray(p.sample(_key(case, case["seed"]), n)))
    if not ok:
        return fails
    if x.shape != (n, R, D):
        fails.append(Failure("sample:shape", f"sample has shape {x.shape}, expected {(n, R, D)}"))
        return fails
    if not np.all(np.isfinite(x)):
        fails.append(Failure("sample:nonfinite", "sample contains non-finite values"))
        return fails
    # deterministic function of the key
    ok, x2 = lib(fails, "sample_again", lambda: np.asarray(p.sample(_key(case, case["seed"]), n)))
    if ok and not np.array_equal(x, x2):
        fails.append(Failure("sample:not_deterministic", "two calls with the same key returned different arrays"))
    if case["seed2"] != case["seed"]:
        ok, x3 = lib(fails, "sample_other_key", lambda: np.asarray(p.sample(_key(case, case["seed2"]), n)))
        if ok and np.array_equal(x, x3):
            fails.append(Failure("sample:key_ignored", "different keys returned identical arrays"))
    # independent continuous draws do not coincide - except through float64 quantisation: x = mu + L z is rounded to the spacing
    # of |mu| + a few sd, so with a mean far from the origin and many draws a few exact ties are expected (birthday bound).
    # Allowed: 3 + 10 x the expected number of ties; a repeated block of draws exceeds that by orders of magnitude.
    if n >= 2:
        for r in range(R):
            sdv = np.sqrt(np.diag(Sig[r]))
            p_tie = float(np.prod(np.minimum(1.0, np.spacing(np.abs(mu[r]) + 4 * sdv) / (2 * np.sqrt(np.pi) * sdv))))
            allowed = 3 + 10 * 0.5 * n * n * p_tie * float(np.sqrt(oracle.cond(Sig[r][None])[0]))
            dup = n - np.unique(x[:, r, :], axis=0).shape[0]
            if dup > (allowed if n > 10**4 else 0):
                fails.append(Failure("sample:duplicate_draws", f"component {r}: {dup} of {n} draws are exact copies of other draws (expected ties from rounding: {allowed:.1f} at most)"))
                break
    if case["stat"]:
        _statistical(fails, x, mu, Sig, "statistical")
        # keys derived from one key by split() are independent streams: draws made with the two halves must be uncorrelated
        # (a sampler that re-seeds itself from part of the key data would tie them together)
        ka, kb = jax.random.split(_key(case, case["seed2"]))
        ok, xs = lib(fails, "sample_split_keys", lambda: (np.asarray(p.sample(ka, 50000)), np.asarray(p.sample(kb, 50000))))
        if ok:
            L = np.linalg.cholesky(Sig)
            for r in range(R):
                wa = np.linalg.solve(L[r], (xs[0][:, r, :] - mu[r]).T).T
                wb = np.linalg.solve(L[r], (xs[1][:, r, :] - mu[r]).T).T
                cc = (wa.T @ wb) / np.sqrt(wa.shape[0])
                if np.max(np.abs(cc)) > 6 or np.array_equal(xs[0][:, r, :], xs[1][:, r, :]):
                    fails.append(Failure("statistical:split_keys_dependent", f"draws made with the two halves of a split key are dependent (component {r}: {np.max(np.abs(cc)):.1f} s.e.)"))
                    break
        return fails
    # structural: whitened draws == the key's standard-normal stream (as a multiset)
    L = np.linalg.cholesky(Sig)
    w = np.stack([np.linalg.solve(L[r], (x[:, r, :] - mu[r]).T).T for r in range(R)], 1)  # [n,R,D]
    kap = float(np.max(oracle.cond(Sig))) ** 0.5
    got = np.sort(w.ravel())
    streams = [np.asarray(jax.random.normal(_key(case, case["seed"]), (n, R, D))).ravel(),
               np.asarray(jax.random.normal(_key(case, case["seed"]), (n * R * D,)))]
    matched = False
    for sref in streams:
        ref = np.sort(sref)
        sc = (1.0 + np.abs(ref)) * kap * (1 + np.max(np.abs(mu)) / np.sqrt(np.min(np.linalg.eigvalsh(Sig))))
        if check([], "x", got, ref, sc) :
            matched = True
            break
    case["_structural"] = matched
    if matched:
        # with the stream known, the exact affine image is checked per component: x[n,r] = mu_r + L_r z for SOME stream element set;
        # the pairing of L_r with component r is what the multiset match of per-component whitening establishes.
        return fails
    # different (but possibly valid) sampler: decide statistically on a large sample (the sample itself if it is larger)
    if n > 200000:
        _statistical(fails, x, mu, Sig, "fallback_statistical")
        return fails
    ok, xb = lib(fails, "sample_large", lambda: np.asarray(p.sample(_key(case, case["seed"]), 200000)))
    if ok:
        if xb.shape != (200000, R, D):
            fails.append(Failure("sample:shape", f"sample has shape {xb.shape}"))
        else:
            _statistical(fails, xb, mu, Sig, "fallback_statistical")
    return fails


def _nontrivial(case):
    Sig = np.asarray(case["p"]["Sigma"], float)
    if case["D"] < 2 or case["R"] < 2:
        return False
    d = np.sqrt(np.einsum("rii->ri", Sig))
    corr = Sig / (d[:, :, None] * d[:, None, :])
    off = np.abs(corr - np.eye(case["D"])[None])
    return bool(np.max(off) >= 0.5)


def _labels(case):
    out = [f"n={case['n']}", ("typed_key:" + (case.get("key_impl") or "threefry")) if case["typed_key"] else "legacy_key", "after_update" if case.get("update") is not None else "fresh", f"far_mean={case.get('far', 0.0):g}"]
    if "_structural" in case:
        out.append("structural_match" if case["_structural"] else "structural_mismatch->statistical")
    return out


SUBS = [
    Sub("structural", _pool, _strategy(False), _run, _nontrivial, _labels,
        examples={"quick": 70, "thorough": 400}, shards={"quick": 6, "thorough": 10}, rule="D>=2, R>=2, |corr|>=0.5"),
    Sub("statistical", lambda tier: _pool(tier)[1:8:2] + _pool(tier)[6:7], _strategy(True), _run, _nontrivial, _labels,
        examples={"quick": 2, "thorough": 6}, shards={"quick": 5, "thorough": 5}, rule="as above; n = 200000"),
]
