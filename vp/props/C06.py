"""C06 - conditioning on coordinates satisfies p(x_a | x_b) p(x_b) = p(x)."""
import numpy as np
from hypothesis import strategies as st

from .. import gen, oracle
from ..compare import Failure, check, lib
from ..sub import Sub

RULE = "Non-trivial: |b| >= 2 given unsorted, or R >= 2 with N >= 2 points (layout r*N+n visible)."
BOUNDS = {"D": "2..8 and 17, 24, 33", "R": "1..4", "N": "1..3"}
ASSUMPTIONS = ["product rule with joint and marginal evaluated by numpy from (mu, Sigma)",
               "conditional parameters compared with the covariance-form Schur complement (the library uses the precision form)"]


def _pool(tier):
    base = [(2, 1, 1), (3, 2, 2), (4, 3, 1), (2, 2, 3), (5, 1, 2), (3, 4, 2), (6, 2, 1), (4, 1, 3), (7, 1, 1), (17, 1, 1), (24, 2, 2), (33, 1, 1), (3, 2, 20), (2, 18, 1)]
    if tier == "thorough":
        base += [(5, 3, 2), (6, 1, 1), (2, 4, 2), (3, 1, 1), (4, 4, 2), (5, 2, 3), (3, 3, 3), (6, 3, 2), (7, 2, 1), (8, 1, 2)]
    return base


def _strategy(shapes):
    @st.composite
    def s(draw):
        D, R, N = draw(st.sampled_from(shapes))
        perm = draw(st.permutations(list(range(D))))
        k = draw(st.integers(1, D - 1))
        dim_b = list(perm[:k])
        variant = draw(st.sampled_from(["condition_on", "explicit"]))
        rest = [d for d in range(D) if d not in dim_b]
        dim_a = list(draw(st.permutations(rest))) if variant == "explicit" else sorted(rest)
        diag = draw(st.sampled_from([False, False, True]))
        case = {"D": D, "R": R, "N": N, "dim_b": dim_b, "dim_a": dim_a, "variant": variant, "diag": diag,
                "p": draw(gen.measure_params("diag_pdf" if diag else "pdf", R, D, draw(st.sampled_from([10.0, 100.0])), extreme="wide" if D >= 17 else True, hetero=True)),
                "upd": draw(gen.maybe_update("diag_pdf" if diag else "pdf", R, D)),
                "x": draw(gen.arr((N, D), -3, 3)),
                # a second, different conditioning set queried on the same object afterwards
                "k2": draw(st.integers(1, D - 1)), "perm2": list(draw(st.permutations(list(range(D)))))}
        from .C05 import _far
        _far(draw, case, D)
        return case
    return s()


def _product_rule(fails, c, tag, x, a, bb, mu, Sig, R, N):
    from ..libx import J

    xa, xb = x[:, a], x[:, bb]
    lj, sj = oracle.mvn_ln(x, mu, Sig)  # [R,N]
    lm, sm = oracle.mvn_ln(xb, mu[:, bb], Sig[:, bb][:, :, bb])
    if int(c.R) != R or int(c.Dy) != len(a) or int(c.Dx) != len(bb):
        fails.append(Failure(tag + ":shape", f"conditional has R={c.R}, Dy={c.Dy}, Dx={c.Dx}; expected {R},{len(a)},{len(bb)}"))
        return False
    ok, d = lib(fails, tag + ".condition_on_x", lambda: c.condition_on_x(J(xb)))
    if ok:
        if int(d.R) != R * N:
            fails.append(Failure(tag + ":layout", f"condition_on_x gives R={d.R}, expected {R*N}"))
        else:
            ok, ev = lib(fails, tag + ".evaluate_ln", lambda: d.evaluate_ln(J(xa)))
            if ok:
                ev = np.asarray(ev).reshape(R, N, N)
                got = np.stack([ev[:, n, n] for n in range(N)], 1)
                check(fails, tag + ":product_rule", got, lj - lm, sj + sm)
    return True


def _run(case):
    from .. import libx
    from ..libx import J
    import jax.numpy as jnp

    fails = []
    D, R, N = case["D"], case["R"], case["N"]
    a, bb = list(case["dim_a"]), list(case["dim_b"])
    p, mu, Sig = libx.density_with_past(fails, "diag_pdf" if case["diag"] else "pdf", case["p"], case.get("upd"))
    if p is None:
        return fails
    tag = case["variant"]
    if tag == "condition_on":
        ok, c = lib(fails, tag, lambda: p.condition_on(libx.IDX(bb)))
    else:
        ok, c = lib(fails, tag, lambda: p.condition_on_explicit(libx.IDX(bb), libx.IDX(a)))
    if not ok:
        return fails
    # evaluation points in the density's own units: component 0's mean + z standard deviations
    x = mu[0] + np.asarray(case["x"], float) * np.sqrt(np.einsum("ii->i", Sig[0]))
    if case.get("far"):
        pass  # far-mean regime: parameters only (below); the log-density comparisons are not judged
    elif not _product_rule(fails, c, tag, x, a, bb, mu, Sig, R, N):
        return fails
    if case.get("perm2") and not case.get("far"):
        b2 = list(case["perm2"][:case["k2"]])
        a2 = sorted(d for d in range(D) if d not in b2)
        ok2, c2 = lib(fails, "second_query", lambda: p.condition_on(libx.IDX(b2)))
        if ok2:
            _product_rule(fails, c2, "second_query", x, a2, b2, mu, Sig, R, N)
            # and the first conditional is still the same function
            _product_rule(fails, c, tag + "_after_second_query", x, a, bb, mu, Sig, R, N)
    # parameters vs covariance-form Schur complement
    Saa = Sig[:, a][:, :, a]
    Sab = Sig[:, a][:, :, bb]
    Sbb = Sig[:, bb][:, :, bb]
    Lbb = oracle.inv_spd(Sbb)
    M = np.einsum("rab,rbc->rac", Sab, Lbb)
    bvec = mu[:, a] - np.einsum("rab,rb->ra", M, mu[:, bb])
    Sc = Saa - np.einsum("rab,rcb->rac", M, Sab)
    Sc = 0.5 * (Sc + np.swapaxes(Sc, 1, 2))
    kap = np.maximum(1.0, oracle.cond(Sig))
    amp = kap[:, None, None]
    if np.any(oracle.cond(Sc) > 1e6):
        fails.append(Failure("excluded:ill_conditioned_derived", "conditional covariance cond > 1e6"))
        return fails
    check(fails, tag + ":M", np.asarray(c.M), M, (1 + np.abs(M).max((1, 2)))[:, None, None] * amp * np.ones_like(M))
    check(fails, tag + ":b", np.asarray(c.b), bvec, (1 + np.abs(mu).max(1) * (1 + np.abs(M).max((1, 2))))[:, None] * kap[:, None] * np.ones_like(bvec))
    check(fails, tag + ":Sigma", np.asarray(c.Sigma), Sc, np.abs(Saa).max((1, 2))[:, None, None] * amp * np.ones_like(Sc))
    Lc = oracle.inv_spd(Sc)
    check(fails, tag + ":Lambda", np.asarray(c.Lambda), Lc, np.abs(Lc).max((1, 2))[:, None, None] * amp * np.ones_like(Lc))
    ld, lds = oracle.slogdet_spd(Sc)
    check(fails, tag + ":ln_det_Sigma", np.asarray(c.ln_det_Sigma), ld, lds * kap)
    return fails


def _nontrivial(case):
    b = case["dim_b"]
    return (len(b) >= 2 and b != sorted(b)) or (case["R"] >= 2 and case["N"] >= 2)


def _labels(case):
    b = case["dim_b"]
    return [f"variant={case['variant']}", "b_unsorted" if b != sorted(b) else "b_sorted", f"|b|={len(b)}", f"diag={case['diag']}",
            "a_unsorted" if case["dim_a"] != sorted(case["dim_a"]) else "a_sorted", "D>=17" if case["D"] >= 17 else "D<=8", f"far_mean={case.get('far', 0.0):g}"]


SUBS = [
    Sub("condition", _pool, _strategy, _run, _nontrivial, _labels,
        examples={"quick": 150, "thorough": 700}, shards={"quick": 8, "thorough": 16}, rule="|b|>=2 unsorted or (R>=2 and N>=2)"),
]
