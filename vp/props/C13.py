"""C13 - entropy, KL divergence, conditional entropy and mutual information."""
import numpy as np
from hypothesis import strategies as st

from .. import gen, oracle
from ..compare import Failure, check, lib
from ..sub import Sub
from . import _cond

RULE = "Non-trivial: D >= 2 (entropy/KL); conditional quantities: M != 0 and (batch combo != (1,1) or Dx,Dy >= 2)."
BOUNDS = {"D,Dx,Dy": "1..4", "R": "1..4", "KL combos": "(R,R),(1,n),(n,1)", "M=0": ">=10% of conditional cases"}
ASSUMPTIONS = ["closed forms evaluated with numpy eigenvalues / Cholesky: H = 1/2 sum ln(2 pi e lambda_i); "
               "KL = 1/2 (tr(S1^-1 S0) + dm' S1^-1 dm - D + ln det S1 - ln det S0); MI = 1/2 (ln det(S + M Sigma M') - ln det S)"]
LN2PIE = 1.0 + oracle.LN2PI


def _entropy_np(Sig):
    w = np.linalg.eigvalsh(Sig)
    return 0.5 * np.sum(LN2PIE + np.log(w), -1), 1.0 + 0.5 * np.sum(np.abs(LN2PIE) + np.abs(np.log(w)), -1)


def _pool_kl(tier):
    # (D, Rp, Rq)
    base = [(1, 1, 1), (2, 2, 2), (3, 1, 3), (2, 3, 1), (4, 2, 2), (3, 3, 3), (4, 1, 2), (2, 4, 1)]
    if tier == "thorough":
        base += [(1, 4, 4), (3, 2, 1), (4, 1, 4), (2, 1, 1), (4, 3, 3), (1, 1, 3)]
    return base


def _strategy_kl(shapes):
    @st.composite
    def s(draw):
        D, Rp, Rq = draw(st.sampled_from(shapes))
        kappa = draw(st.sampled_from([10.0, 100.0]))
        same = draw(st.sampled_from([False, False, False, True])) and Rp == Rq
        # classes of the two sides are drawn independently (a diagonal p against a full q and vice versa)
        kp = draw(st.sampled_from(["pdf", "pdf", "diag_pdf"]))
        kq = kp if same else draw(st.sampled_from(["pdf", "pdf", "diag_pdf"]))
        p = draw(gen.measure_params(kp, Rp, D, kappa, extreme=True))
        q = p if same else draw(gen.measure_params(kq, Rq, D, kappa, extreme=True))
        # far-mean regime: both densities live 1e4 / 1e6 standard deviations away from the origin and close to each other
        # (time stamps, absolute positions); KL and entropy do not depend on the common offset
        far = draw(st.sampled_from([0.0, 0.0, 0.0, 1e4, 1e6]))
        if far:
            unit = gen.unit_of("pdf", p)
            if not same:
                q = draw(gen.measure_params(kq, Rq, D, kappa))
                q = {"Sigma": np.asarray(q["Sigma"], float) * unit**2, "mu": np.asarray(q["mu"], float) * unit}
            sd = float(np.sqrt(np.mean(np.linalg.eigvalsh(np.asarray(p["Sigma"], float)[0]))))
            off = far * sd * draw(gen.arr((D,), 0.5, 1.5)) * np.where(draw(gen.arr((D,), -1, 1)) < 0, -1.0, 1.0)
            p = {"Sigma": p["Sigma"], "mu": np.asarray(p["mu"], float) + off}
            q = p if same else {"Sigma": q["Sigma"], "mu": np.asarray(q["mu"], float) + off}
        return {"D": D, "Rp": Rp, "Rq": Rq, "same": same, "p": p, "q": q, "diag": draw(st.booleans()), "far": far, "kp": kp, "kq": kq}
    return s()


def _run_kl(case):
    from .. import libx

    fails = []
    D = case["D"]
    kind = "pdf"
    mp, Sp = np.asarray(case["p"]["mu"], float), np.asarray(case["p"]["Sigma"], float)
    mq, Sq = np.asarray(case["q"]["mu"], float), np.asarray(case["q"]["Sigma"], float)
    ok, p = lib(fails, "construct_p", libx.make_measure, case.get("kp", kind), case["p"])
    ok2, q = lib(fails, "construct_q", libx.make_measure, case.get("kq", kind), case["q"])
    if not (ok and ok2):
        return fails
    H, Hs = _entropy_np(Sp)
    ok, got = lib(fails, "entropy", lambda: p.entropy())
    if ok:
        check(fails, "entropy", got, H, Hs)
    # (the information-form expectation legitimately loses |mu|^2/sigma^2 * eps: not judged in the far-mean regime)
    ok, got = (False, None) if case.get("far") else lib(fails, "entropy_via_log_integral", lambda: -p.integrate("log u(x)", factor=p))
    if ok:
        kap = np.maximum(1.0, oracle.cond(Sp))
        check(fails, "entropy:minus_E_ln_p", got, H, Hs * kap)
    # KL
    R = max(case["Rp"], case["Rq"])
    mpb, Spb = np.broadcast_to(mp, (R, D)), np.broadcast_to(Sp, (R, D, D))
    mqb, Sqb = np.broadcast_to(mq, (R, D)), np.broadcast_to(Sq, (R, D, D))
    Lq = oracle.inv_spd(Sqb)
    tr = np.einsum("rij,rji->r", Lq, Spb)
    dm = mqb - mpb
    quad = np.einsum("ri,rij,rj->r", dm, Lq, dm)
    ldq, lsq = oracle.slogdet_spd(Sqb)
    ldp, lsp = oracle.slogdet_spd(Spb)
    kl = 0.5 * (tr + quad - D + ldq - ldp)
    kls = 1.0 + 0.5 * (np.abs(tr) + quad + D + lsq + lsp)
    ok, got = lib(fails, "kl_divergence", lambda: p.kl_divergence(q))
    if ok:
        kap = np.maximum(1.0, oracle.cond(Sqb))
        if check(fails, "kl:value", got, kl, kls * kap):
            g = np.asarray(got)
            if np.any(g < -1e-8 * kls * kap):
                fails.append(Failure("kl:negative", f"KL divergence negative: {g.min()}"))
        if case["same"]:
            check(fails, "kl:self_zero", got, np.zeros(R), kls * kap)
    return fails


def _nontrivial_kl(case):
    return case["D"] >= 2


def _labels_kl(case):
    c = "(R,R)" if case["Rp"] == case["Rq"] else ("(1,n)" if case["Rp"] == 1 else "(n,1)")
    return [f"combo={c}", f"same={case['same']}", f"far_mean={case.get('far', 0.0):g}", f"classes={case.get('kp', 'pdf')}|{case.get('kq', 'pdf')}"]


def _extra(draw, case):
    case["zero_M"] = draw(st.sampled_from([False] * 5 + [True])) and case["kind"] in ("full", "diag")
    if case["zero_M"]:
        case["c"]["M"] = np.zeros_like(np.asarray(case["c"]["M"], float))
    elif case["kind"] in ("full", "diag") and draw(st.sampled_from([False] * 4 + [True])):
        Mx = np.asarray(case["c"]["M"], float).copy()
        Mx[:, 0, :] = 0.0  # a zero row
        case["c"]["M"] = Mx


def _run_ci(case):
    from .. import libx
    from ..libx import J
    from gaussian_toolbox import pdf

    fails = []
    fam = _cond.fam(case)
    M, b, S, mu, Sig = _cond.np_inputs(case)
    Dx, Dy = case["Dx"], case["Dy"]
    ok, cu = lib(fails, "construct_cond", libx.make_cond, case["c"])
    if not ok:
        return fails
    c, kw = cu
    ok, px = lib(fails, "construct_px", libx.make_measure, "pdf", case["px"])
    if not ok:
        return fails
    R = case["Rc"] * case["Rx"]
    ce = np.zeros(R); ces = np.zeros(R); mi = np.zeros(R); mis = np.zeros(R); kap = np.ones(R)
    joints_yx = []
    for r, rc, rx in _cond.pairs(case):
        ld, ls = oracle.slogdet_spd(S[rc][None])
        ce[r] = 0.5 * (Dy * LN2PIE + ld[0])
        ces[r] = 1.0 + 0.5 * (Dy * LN2PIE + ls[0])
        Sy = S[rc] + M[rc] @ Sig[rx] @ M[rc].T
        Sy = 0.5 * (Sy + Sy.T)
        ldy, lsy = oracle.slogdet_spd(Sy[None])
        mi[r] = 0.5 * (ldy[0] - ld[0])
        mis[r] = 1.0 + 0.5 * (lsy[0] + ls[0]) + 0.5 * (Dx + Dy) * LN2PIE
        mj, Sj = _cond.joint_moments(M[rc], b[rc], S[rc], mu[rx], Sig[rx])
        kap[r] = max(1.0, oracle.cond(Sj[None])[0])
        perm = list(range(Dx, Dx + Dy)) + list(range(Dx))
        joints_yx.append((mj[perm], Sj[perm][:, perm]))
    if np.any(kap > 1e6):
        fails.append(Failure("excluded:ill_conditioned_derived", "joint covariance cond > 1e6"))
        return fails
    ok, got = lib(fails, f"conditional_entropy[{fam}]", lambda: c.conditional_entropy(px, **kw))
    if ok:
        check(fails, f"conditional_entropy[{fam}]", got, ce, ces * kap**0.5)
    ok, got = lib(fails, f"mutual_information[{fam}]", lambda: c.mutual_information(px, **kw))
    if ok:
        if check(fails, f"mutual_information[{fam}]", got, mi, mis * kap**0.5):
            g = np.asarray(got)
            if np.any(g < -1e-8 * mis * kap**0.5):
                fails.append(Failure(f"mutual_information[{fam}]:negative", f"MI negative: {g.min()}"))
    # conditional entropy == - integrate_log_conditional(joint over (y,x)) for R_cond == 1 (documented restriction)
    # (identity-mean and NN-control classes document R_cond == 1 / a single control input as a precondition)
    if case["Rc"] == 1 or (fam in ("full", "diag") and case["Rc"] == R):
        mj = np.stack([j[0] for j in joints_yx]); Sj = np.stack([j[1] for j in joints_yx])
        ok, pyx = lib(fails, "construct_pyx", lambda: pdf.GaussianPDF(Sigma=J(Sj), mu=J(mj)))
        if ok:
            ok, got = lib(fails, f"integrate_log_conditional[{fam}]", lambda: -c.integrate_log_conditional(pyx, **kw))
            if ok:
                check(fails, f"conditional_entropy[{fam}]:minus_E_ln_cond", got, ce, ces * kap)
    # role swap through the conditional transformation (slice-wise: both sides batched is a refusal)
    ok, post = lib(fails, f"conditional[{fam}]", lambda: c.affine_conditional_transformation(px, **kw))
    ok2, py = lib(fails, f"marginal[{fam}]", lambda: c.affine_marginal_transformation(px, **kw))
    if ok and ok2:
        import jax.numpy as jnp

        vals = []
        for r in range(R):
            ok, v = lib(fails, f"mutual_information[{fam}]:swapped", lambda: post.slice(jnp.array([r])).mutual_information(py.slice(jnp.array([r]))))
            if not ok:
                break
            vals.append(float(np.asarray(v)[0]))
        if len(vals) == R:
            check(fails, f"mutual_information[{fam}]:role_swap", np.array(vals), mi, mis * kap)
    return fails


def _nontrivial_ci(case):
    return (not case.get("zero_M")) and _cond.nontrivial(case)


def _labels_ci(case):
    return _cond.labels(case) + [f"zero_M={case.get('zero_M')}"]


def _pool_ci(tier):
    return [p for p in _cond.pool(tier) if p[0] <= 4 and p[1] <= 4]


SUBS = [
    Sub("entropy_kl", _pool_kl, _strategy_kl, _run_kl, _nontrivial_kl, _labels_kl,
        examples={"quick": 150, "thorough": 700}, shards={"quick": 6, "thorough": 12}, rule="D>=2"),
    Sub("cond_info", _pool_ci, lambda shapes: _cond.strategy(shapes, extra=_extra), _run_ci, _nontrivial_ci, _labels_ci,
        examples={"quick": 70, "thorough": 400}, shards={"quick": 12, "thorough": 24}, rule="M != 0 and (combo != (1,1) or Dx,Dy>=2)"),
]
