"""C01 - multiplying a measure by a conjugate factor is pointwise multiplication."""
import numpy as np
from hypothesis import strategies as st

from .. import gen, oracle
from ..compare import Failure, check, lib
from ..sub import Sub

RULE = ("Non-trivial: D >= 2 and the result has >= 2 components; layout-sensitive = R1 >= 2, R2 >= 2, R1 != R2 "
        "(the only cases where i*R2+j and j*R1+i differ).")
BOUNDS = {"D": "1..5", "R1,R2": "1..4 (thorough 1..6)", "N": "1..4", "kappa": "<=1e2 (thorough <=1e4)"}
ASSUMPTIONS = [
    "numpy float64 evaluation of ln u_i(x) + ln f_j(x) from the constructor inputs is the reference",
    "tolerance 1e-8 relative to the sum of absolute terms of the reference (forward-error scale)",
]


def _pool_multiply(tier):
    base = [(1, 1, 1, 1), (2, 2, 3, 2), (3, 3, 2, 1), (2, 1, 3, 3), (4, 2, 1, 2), (3, 2, 4, 2), (1, 3, 2, 4), (5, 2, 3, 1),
            (2, 20, 1, 2), (2, 3, 18, 1), (18, 2, 2, 1), (2, 2, 2, 20), (2, 2, 1, 4500)]  # sizes beyond 16 / 4096 points
    if tier == "thorough":
        base += [(2, 4, 3, 2), (3, 1, 1, 3), (4, 3, 4, 1), (5, 4, 2, 2), (2, 5, 6, 1), (3, 6, 5, 2), (1, 2, 5, 2), (4, 1, 4, 3),
                 (2, 3, 3, 2), (3, 4, 4, 1), (5, 1, 2, 4), (2, 2, 5, 3)]
    return base


def _pool_hadamard(tier):
    # (D, R1, R2, N) with (R1,R2) in {(n,n),(n,1),(1,n)}
    base = [(1, 1, 1, 1), (2, 3, 3, 2), (3, 2, 1, 1), (2, 1, 3, 3), (4, 2, 2, 2), (3, 4, 1, 2), (1, 1, 2, 4), (5, 1, 2, 1),
            (2, 19, 19, 1), (2, 18, 1, 2), (17, 2, 2, 1)]
    if tier == "thorough":
        base += [(2, 4, 4, 2), (3, 1, 4, 3), (4, 3, 1, 1), (5, 3, 3, 2), (2, 6, 1, 1), (3, 1, 5, 2), (1, 4, 4, 2), (4, 1, 3, 3)]
    return base


def _pool_product(tier):
    base = [(1, 1, 0, 1), (2, 3, 0, 2), (3, 2, 0, 1), (4, 4, 0, 2), (2, 1, 0, 3), (5, 2, 0, 1), (2, 18, 0, 1), (17, 3, 0, 1)]
    if tier == "thorough":
        base += [(3, 5, 0, 2), (1, 6, 0, 3), (4, 3, 0, 1), (2, 4, 0, 4)]
    return base


def _strategy(op_choices):
    def make(shapes):
        @st.composite
        def s(draw):
            D, R1, R2, N = draw(st.sampled_from(shapes))
            mkind = draw(st.sampled_from(gen.MEASURE_KINDS))
            cache = draw(st.sampled_from(gen.CACHES))
            op = draw(st.sampled_from(op_choices))
            kappa = draw(st.sampled_from([10.0, 100.0]))
            case = {"D": D, "R1": R1, "R2": R2, "N": N, "mkind": mkind, "cache": cache, "op": op,
                    "m": draw(gen.measure_params(mkind, R1, D, kappa, extreme=True, hetero=True)),
                    "x": draw(gen.arr((N, D), -3, 3))}
            if op != "product":
                fkind = draw(st.sampled_from(gen.FACTOR_KINDS))
                case["fkind"] = fkind
                case["update_full"] = draw(st.booleans())
                case["f"] = draw(gen.factor_params(fkind, R2, D, kappa))
                case["elementwise"] = draw(st.booleans())
                # the measure multiplied with ITSELF (the same object on both sides): u_i(x) u_j(x)
                if draw(st.sampled_from([False] * 9 + [True])):
                    case["self_alias"] = True
                    case["R2"] = R1
                    case["fkind"] = "measure"
                    del case["f"]
            # unit consistency on the extreme overall scales: points and the factor are expressed in the measure's unit
            unit = gen.unit_of(mkind, case["m"])
            if unit != 1.0:
                case["unit"] = unit
                case["x"] = np.asarray(case["x"], float) * unit
                if "f" in case:
                    case["f"] = gen.rescale_factor(case["fkind"], case["f"], unit)
            return case
        return s()
    return make


def _run(case):
    from .. import libx
    from ..libx import J

    fails = []
    D, R1, R2 = case["D"], case["R1"], case["R2"]
    op = case["op"]
    x = np.asarray(case["x"], float)
    Lm, num, lbm = libx.measure_params_np(case["mkind"], case["m"])
    lnu, su = oracle.ln_factor(Lm, num, lbm, x)  # [R1,N]

    ok, m = lib(fails, "construct_measure", libx.make_measure, case["mkind"], case["m"], case["cache"])
    if not ok:
        return fails
    # the operand's own evaluation path (not assumed)
    ok, got = lib(fails, "measure.evaluate_ln", lambda: m.evaluate_ln(J(x)))
    if ok:
        check(fails, "measure.evaluate_ln", got, lnu, su)
    snap_m = libx.primary_snapshot(m)

    if op == "product":
        ok, res = lib(fails, "product", lambda: m.product())
        if not ok:
            return fails
        want = lnu.sum(0, keepdims=True)
        scale = su.sum(0, keepdims=True)
        if int(res.R) != 1:
            fails.append(Failure("product:R", f"product() has R={res.R}, expected 1"))
        ok, got = lib(fails, "product.evaluate_ln", lambda: res.evaluate_ln(J(x)))
        if ok:
            check(fails, "product.evaluate_ln", got, want, scale)
        ok, got = lib(fails, "product.evaluate", lambda: res.evaluate(J(x)))
        if ok:
            check(fails, "product.evaluate", got, np.exp(want), np.exp(want) * scale)
        if not libx.snapshot_equal(snap_m, libx.primary_snapshot(m)):
            fails.append(Failure("product:operand_mutated", "measure parameters changed by product()"))
        # the result is an object of its own: normalising it in place must not touch the operand
        ok, _ = lib(fails, "product.normalize_result", lambda: res.normalize())
        ok, got = lib(fails, "measure.evaluate_ln_after", lambda: m.evaluate_ln(J(x)))
        if ok:
            check(fails, "product:operand_changed_via_result", got, lnu, su)
        return fails

    if case.get("self_alias"):
        lnf, sf, f = lnu, su, m
    else:
        Lf, nuf, lbf = libx.factor_params_np(case["fkind"], case["f"])
        lnf, sf = oracle.ln_factor(Lf, nuf, lbf, x)  # [R2,N]
        ok, f = lib(fails, "construct_factor", libx.make_factor, case["fkind"], case["f"])
        if not ok:
            return fails
    ok, got = lib(fails, "factor.evaluate_ln", lambda: f.evaluate_ln(J(x)))
    if ok:
        check(fails, "factor.evaluate_ln", got, lnf, sf)
    snap_f = libx.primary_snapshot(f)

    if op in ("multiply", "mul"):
        want = (lnu[:, None, :] + lnf[None, :, :]).reshape(R1 * R2, -1)
        scale = (su[:, None, :] + sf[None, :, :]).reshape(R1 * R2, -1)
        Rexp = R1 * R2
        if op == "mul":
            ok, res = lib(fails, "mul", lambda: m * f)
        else:
            ok, res = lib(fails, "multiply", lambda: m.multiply(f, update_full=case["update_full"]))
    else:  # hadamard, component-wise with a single-component operand broadcast
        Rexp = max(R1, R2)
        want = lnu + lnf
        scale = su + sf
        ok, res = lib(fails, "hadamard", lambda: m.hadamard(f, update_full=case["update_full"]))
    if not ok:
        return fails
    tag = "hadamard" if op == "hadamard" else "multiply"
    if int(res.R) != Rexp:
        fails.append(Failure(f"{tag}:R", f"{op} result has R={res.R}, expected {Rexp} (fkind={case['fkind']})"))
    ok, got = lib(fails, f"{tag}.evaluate_ln", lambda: res.evaluate_ln(J(x)))
    if ok:
        check(fails, f"{tag}.evaluate_ln", got, want, scale)
    ok, got = lib(fails, f"{tag}.call", lambda: res(J(x)))
    if ok:
        check(fails, f"{tag}.call", got, np.exp(want), np.exp(want) * scale)
    if case.get("elementwise") and int(res.R) == Rexp:
        # element-wise evaluation: x_r paired with component r
        xe = np.resize(x, (Rexp, D))
        we, se = [], []
        for r in range(Rexp):
            we.append(want[r, r % x.shape[0]])
            se.append(scale[r, r % x.shape[0]])
        ok, got = lib(fails, f"{tag}.evaluate_ln_elementwise", lambda: res.evaluate_ln(J(xe), element_wise=True))
        if ok:
            check(fails, f"{tag}.evaluate_ln_elementwise", got, np.array(we), np.array(se))
    if not libx.snapshot_equal(snap_m, libx.primary_snapshot(m)):
        fails.append(Failure(f"{tag}:measure_mutated", f"measure parameters changed by {op}"))
    if not libx.snapshot_equal(snap_f, libx.primary_snapshot(f)):
        fails.append(Failure(f"{tag}:factor_mutated", f"factor parameters changed by {op}"))
    # operands still evaluate to the same functions - also after the result has been normalised in place
    lib(fails, f"{tag}.normalize_result", lambda: res.normalize())
    ok, got = lib(fails, "measure.evaluate_ln_after", lambda: m.evaluate_ln(J(x)))
    if ok:
        check(fails, "measure.evaluate_ln_after", got, lnu, su)
    ok, got = lib(fails, "factor.evaluate_ln_after", lambda: f.evaluate_ln(J(x)))
    if ok:
        check(fails, "factor.evaluate_ln_after", got, lnf, sf)
    return fails


def _nontrivial(case):
    if case["op"] == "product":
        return case["D"] >= 2 and case["R1"] >= 2
    if case["op"] == "hadamard":
        return case["D"] >= 2 and max(case["R1"], case["R2"]) >= 2
    return case["D"] >= 2 and case["R1"] * case["R2"] >= 2


def _labels(case):
    out = [f"mkind={case['mkind']}", f"cache={case['cache']}", f"op={case['op']}", f"D={case['D']}"]
    if "fkind" in case:
        out += [f"fkind={case['fkind']}", f"update_full={case['update_full']}"] + (["self_alias"] if case.get("self_alias") else [])
        if case["op"] in ("multiply", "mul") and case["R1"] >= 2 and case["R2"] >= 2 and case["R1"] != case["R2"]:
            out.append("layout_sensitive")
        if case["op"] == "hadamard":
            out.append("bcast=" + ("nn" if case["R1"] == case["R2"] else ("n1" if case["R2"] == 1 else "1n")))
    return out


SUBS = [
    Sub("multiply", _pool_multiply, _strategy(["multiply", "mul"]), _run, _nontrivial, _labels,
        examples={"quick": 150, "thorough": 700}, shards={"quick": 8, "thorough": 16},
        rule="D>=2 and R1*R2>=2"),
    Sub("hadamard", _pool_hadamard, _strategy(["hadamard"]), _run, _nontrivial, _labels,
        examples={"quick": 150, "thorough": 700}, shards={"quick": 6, "thorough": 12},
        rule="D>=2 and max(R1,R2)>=2"),
    Sub("product", _pool_product, _strategy(["product"]), _run, _nontrivial, _labels,
        examples={"quick": 100, "thorough": 500}, shards={"quick": 2, "thorough": 4},
        rule="D>=2 and R1>=2"),
]
