"""C05 - marginals and linear images have the law of the sub-vector / of Wx+b."""
import numpy as np
from hypothesis import strategies as st

from .. import gen, oracle
from ..compare import Failure, check, lib
from ..sub import Sub

RULE = "Non-trivial: marginal with >= 2 unsorted coordinates, or R >= 2; linear sum with K >= 2 rows or R >= 2."
BOUNDS = {"D": "1..8 and 24, 40", "R": "1..4", "N": "1..3"}
ASSUMPTIONS = ["reference 1: ln N(x_dims; mu[dims], Sigma[dims,dims]) / ln N(z; W mu + b, W Sigma W') by numpy Cholesky",
               "reference 2 (marginal): Schur complement on the joint precision = integral of the joint density over the dropped coordinates"]


def _pool(tier):
    base = [(1, 1, 1), (2, 2, 2), (3, 3, 1), (4, 2, 2), (5, 1, 1), (3, 4, 2), (2, 1, 3), (6, 2, 1), (7, 1, 1), (24, 2, 1), (40, 1, 2)]
    if tier == "thorough":
        base += [(4, 4, 1), (6, 1, 2), (5, 3, 2), (2, 3, 1), (3, 1, 3), (1, 4, 2), (4, 1, 1), (5, 2, 3), (7, 2, 1), (8, 1, 2)]
    return base


def _far(draw, case, D):
    """Far-mean regime (a sixth of the cases): the mean lies 1e4 / 1e6 standard deviations from the origin.  Covariances,
    precisions and log-determinants of the results do not depend on it and are judged at their own scale; the log-density
    comparisons are skipped there (information-form evaluation legitimately loses eps * |mu|^2 / sigma^2)."""
    far = draw(st.sampled_from([0.0] * 5 + [1e4, 1e6]))
    if far:
        Sig = np.asarray(case["p"]["Sigma"], float)
        sd = np.sqrt(np.einsum("rii->ri", Sig))
        d = draw(gen.arr(sd.shape, 0.5, 1.5)) * np.where(draw(gen.arr(sd.shape, -1, 1)) < 0, -1.0, 1.0)
        case["p"] = dict(case["p"], mu=np.asarray(case["p"]["mu"], float) + far * sd * d)
    case["far"] = far


def _strategy_marg(shapes):
    @st.composite
    def s(draw):
        D, R, N = draw(st.sampled_from(shapes))
        diag = draw(st.booleans())
        dims = draw(gen.perm_prefix(D))
        case = {"D": D, "R": R, "N": N, "diag": diag, "dims": dims,
                "p": draw(gen.measure_params("diag_pdf" if diag else "pdf", R, D, draw(st.sampled_from([10.0, 100.0])), extreme="wide" if D >= 17 else True, hetero=True)),
                "upd": draw(gen.maybe_update("diag_pdf" if diag else "pdf", R, D)),
                "x": draw(gen.arr((N, len(dims)), -3, 3)),
                # a second, different query on the same object (a result remembered from the first must not leak)
                "dims2": draw(gen.perm_prefix(D)), "x2": draw(gen.arr((2, D), -3, 3))}
        _far(draw, case, D)
        return case
    return s()


def _run_marg(case):
    from .. import libx
    from ..libx import J
    import jax.numpy as jnp
    from gaussian_toolbox import pdf

    fails = []
    D, R, dims = case["D"], case["R"], list(case["dims"])
    kind = "diag_pdf" if case["diag"] else "pdf"
    p, mu, Sig = libx.density_with_past(fails, kind, case["p"], case.get("upd"))
    if p is None:
        return fails
    snap = {k: np.asarray(getattr(p, k)).copy() for k in ("mu", "Sigma", "Lambda", "nu", "ln_beta")}
    ok, m = lib(fails, "get_marginal", lambda: p.get_marginal(libx.IDX(dims)))
    if not ok:
        return fails
    mu_m = mu[:, dims]
    Sig_m = Sig[:, dims][:, :, dims]
    sd0 = np.sqrt(np.einsum("ii->i", Sig[0]))
    # evaluation points in the density's own units: component 0's mean + z standard deviations
    x = mu_m[0] + np.asarray(case["x"], float) * sd0[dims]
    want, scale = oracle.mvn_ln(x, mu_m, Sig_m)
    far = bool(case.get("far"))
    ok, got = (False, None) if far else lib(fails, "get_marginal.evaluate_ln", lambda: m.evaluate_ln(J(x)))
    if ok:
        check(fails, "marginal:law", got, want, scale)
    kapm = np.maximum(1.0, oracle.cond(Sig_m))
    if np.all(kapm < 1e6):
        check(fails, "marginal:Sigma_Lambda_identity", np.einsum("rij,rjk->rik", Sig_m, np.asarray(m.Lambda)),
              np.broadcast_to(np.eye(len(dims)), Sig_m.shape), kapm[:, None, None] * np.ones_like(Sig_m))
        ldm, ldms = oracle.slogdet_spd(Sig_m)
        check(fails, "marginal:ln_det_Sigma", np.asarray(m.ln_det_Sigma), ldm, ldms)
    check(fails, "marginal:mu", np.asarray(m.mu), mu_m, 1 + np.abs(mu_m))
    check(fails, "marginal:Sigma", np.asarray(m.Sigma), Sig_m, np.abs(Sig_m).max((1, 2))[:, None, None] * np.ones_like(Sig_m))
    # integral of the joint density over the remaining coordinates (information form, Schur complement)
    rest = [d for d in range(D) if d not in dims]
    Lam = oracle.inv_spd(Sig)
    nu = np.einsum("rde,re->rd", Lam, mu)
    lnZ, _ = oracle.ln_mass(Lam, nu, np.zeros(R))
    if rest:
        Laa = Lam[:, dims][:, :, dims]
        Lab = Lam[:, dims][:, :, rest]
        Lbb = Lam[:, rest][:, :, rest]
        Sbb = oracle.inv_spd(Lbb)
        Lm = Laa - np.einsum("rab,rbc,rdc->rad", Lab, Sbb, Lab)
        num = nu[:, dims] - np.einsum("rab,rbc,rc->ra", Lab, Sbb, nu[:, rest])
        ldb, _ = oracle.slogdet_spd(Lbb)
        cm = -lnZ + 0.5 * (np.einsum("rb,rbc,rc->r", nu[:, rest], Sbb, nu[:, rest]) + len(rest) * oracle.LN2PI - ldb)
    else:
        Lm, num, cm = Lam[:, dims][:, :, dims], nu[:, dims], -lnZ
    Lm = 0.5 * (Lm + np.swapaxes(Lm, 1, 2))
    want2, scale2 = oracle.ln_factor(Lm, num, cm, x)
    kap = np.maximum(1.0, oracle.cond(Sig))[:, None]
    if ok:
        check(fails, "marginal:integral_of_joint", got, want2, (scale2 + np.abs(lnZ)[:, None]) * kap)
    if case.get("dims2"):
        d2 = list(case["dims2"])
        x2 = mu[0, d2] + np.asarray(case["x2"], float)[:, d2] * sd0[d2]
        ok2, m2 = lib(fails, "get_marginal_second", lambda: p.get_marginal(libx.IDX(d2)))
        if ok2 and far:
            check(fails, "marginal:second_query_Sigma", np.asarray(m2.Sigma), Sig[:, d2][:, :, d2], np.abs(Sig[:, d2][:, :, d2]).max((1, 2))[:, None, None] * np.ones((R, len(d2), len(d2))))
        elif ok2:
            w2, s2 = oracle.mvn_ln(x2, mu[:, d2], Sig[:, d2][:, :, d2])
            ok2, g2 = lib(fails, "get_marginal_second.evaluate_ln", lambda: m2.evaluate_ln(J(x2)))
            if ok2:
                check(fails, "marginal:second_query", g2, w2, s2)
        if ok:
            ok3, g3 = lib(fails, "get_marginal.evaluate_ln_again", lambda: m.evaluate_ln(J(x)))
            if ok3 and not np.array_equal(np.asarray(g3), np.asarray(got)):
                fails.append(Failure("marginal:first_result_changed", "the first marginal evaluates differently after a second get_marginal on the same density"))
    # type: diag stays diag
    if case["diag"] and not isinstance(m, pdf.GaussianDiagPDF):
        fails.append(Failure("marginal:type", f"marginal of a GaussianDiagPDF is {type(m).__name__}"))
    for k, v in snap.items():
        if not np.array_equal(np.asarray(getattr(p, k)), v):
            fails.append(Failure("marginal:operand_mutated", f"get_marginal changed the operand's {k}"))
    # the marginal is an object of its own: replacing one of ITS components in place must not reach the operand
    newc = {"Sigma": np.eye(len(dims))[None] * 1.7, "mu": np.full((1, len(dims)), 0.3)}
    ok, _ = lib(fails, "marginal.update_result", lambda: m.update(jnp.array([0]), libx.make_measure(kind, newc)))
    if ok:
        for k, v in snap.items():
            if not np.array_equal(np.asarray(getattr(p, k)), v):
                fails.append(Failure("marginal:operand_changed_via_result", f"updating the marginal in place changed the operand's {k}"))
                break
    return fails


def _nontrivial_marg(case):
    d = case["dims"]
    return (len(d) >= 2 and d != sorted(d)) or case["R"] >= 2


def _labels_marg(case):
    d = case["dims"]
    return [f"diag={case['diag']}", "all_coords" if len(d) == case["D"] else "subset", "unsorted" if d != sorted(d) else "sorted", "after_update" if case.get("upd") else "fresh", "D>=17" if case["D"] >= 17 else "D<=8", f"far_mean={case.get('far', 0.0):g}"]


def _strategy_lin(shapes):
    @st.composite
    def s(draw):
        D, R, N = draw(st.sampled_from(shapes))
        K = draw(st.integers(1, D))
        combo = draw(st.sampled_from(["RR", "1W", "1p"]))  # W per component; shared W (R=1) vs batch; batch W vs single density
        Rp = 1 if combo == "1p" else R
        Rw = 1 if combo == "1W" else R
        diag = draw(st.booleans())
        W = draw(gen.spd(Rw, D, kappa=20.0, lam_lo=0.5, lam_hi=2.0))[:, :K, :]
        sgn = draw(gen.arr((Rw, K, 1), -1, 1))
        W = W * np.where(sgn < 0, -1.0, 1.0)
        wstruct = draw(st.sampled_from([None] * 6 + ["selection", "orthonormal_rows"]))
        if wstruct == "selection":
            # rows of W pick K distinct coordinates (a marginal written as a linear map; a permutation when K = D)
            cols = list(draw(st.permutations(list(range(D))))[:K])
            W = np.zeros_like(W)
            for i, c_ in enumerate(cols):
                W[:, i, c_] = 1.0
        elif wstruct == "orthonormal_rows":
            W = np.linalg.qr(np.swapaxes(W, 1, 2))[0]
            W = np.swapaxes(W, 1, 2)[:, :K, :]
        w_int = wstruct == "selection" and draw(st.booleans())  # dtype regime: a 0/1 selection matrix written as an integer array
        case = {"D": D, "R": R, "N": N, "K": K, "combo": combo, "diag": diag, "W": W, "wstruct": wstruct, "w_int": w_int,
                "b": draw(st.one_of(st.none(), gen.arr((Rw, K)))),
                "p": draw(gen.measure_params("diag_pdf" if diag else "pdf", Rp, D, draw(st.sampled_from([10.0, 100.0])))),
                "upd": draw(gen.maybe_update("diag_pdf" if diag else "pdf", Rp, D)),
                "z": draw(gen.arr((N, K), -3, 3))}
        _far(draw, case, D)
        return case
    return s()


def _run_lin(case):
    from .. import libx
    from ..libx import J

    fails = []
    W = np.asarray(case["W"], float)
    b = None if case["b"] is None else np.asarray(case["b"], float)
    kind = "diag_pdf" if case["diag"] else "pdf"
    p, mu, Sig = libx.density_with_past(fails, kind, case["p"], case.get("upd"))
    if p is None:
        return fails
    bJ = None if b is None else J(b)
    b_before = None if b is None else np.asarray(bJ).copy()
    mu_before = np.asarray(p.mu).copy()
    import jax.numpy as jnp

    WJ = jnp.asarray(W.astype(np.int64)) if case.get("w_int") else J(W)
    ok, q = lib(fails, "linear_sum", lambda: p.get_density_of_linear_sum(WJ, bJ))
    if not ok:
        return fails
    R = max(W.shape[0], mu.shape[0])
    Wb = np.broadcast_to(W, (R,) + W.shape[1:])
    mub = np.broadcast_to(mu, (R,) + mu.shape[1:])
    Sb = np.broadcast_to(Sig, (R,) + Sig.shape[1:])
    m = np.einsum("rkd,rd->rk", Wb, mub) + (0 if b is None else np.broadcast_to(b, (R, W.shape[1])))
    S = np.einsum("rkd,rde,rle->rkl", Wb, Sb, Wb)
    S = 0.5 * (S + np.swapaxes(S, 1, 2))
    if np.any(oracle.cond(S) > 1e6):
        fails.append(Failure("excluded:ill_conditioned_derived", "W Sigma W' cond > 1e6"))
        return fails
    z = np.asarray(case["z"], float)
    want, scale = oracle.mvn_ln(z, m, S)
    if int(q.R) != R:
        fails.append(Failure("linear_sum:R", f"linear sum has R={q.R}, expected {R}"))
        return fails
    ok, got = (False, None) if case.get("far") else lib(fails, "linear_sum.evaluate_ln", lambda: q.evaluate_ln(J(z)))
    if ok:
        check(fails, "linear_sum:law", got, want, scale)
    kq = np.maximum(1.0, oracle.cond(S))
    check(fails, "linear_sum:Sigma_Lambda_identity", np.einsum("rij,rjk->rik", S, np.asarray(q.Lambda)), np.broadcast_to(np.eye(S.shape[1]), S.shape), kq[:, None, None] * np.ones_like(S))
    ldq, ldqs = oracle.slogdet_spd(S)
    check(fails, "linear_sum:ln_det_Sigma", np.asarray(q.ln_det_Sigma), ldq, ldqs)
    check(fails, "linear_sum:mu", np.asarray(q.mu), m, 1 + np.abs(m))
    check(fails, "linear_sum:Sigma", np.asarray(q.Sigma), S, np.abs(S).max((1, 2))[:, None, None] * np.ones_like(S))
    if b is not None and not np.array_equal(np.asarray(bJ), b_before):
        fails.append(Failure("linear_sum:b_mutated", "b was modified in place"))
    if not np.array_equal(np.asarray(p.mu), mu_before):
        fails.append(Failure("linear_sum:operand_mutated", "operand mu changed"))
    return fails


def _nontrivial_lin(case):
    return case["K"] >= 2 or case["R"] >= 2


def _labels_lin(case):
    return [f"combo={case['combo']}", "b" if case["b"] is not None else "no_b", f"diag={case['diag']}", "K=D" if case["K"] == case["D"] else "K<D", f"W={case.get('wstruct') or 'generic'}" + ("(int dtype)" if case.get("w_int") else ""), "D>=17" if case["D"] >= 17 else "D<=8", f"far_mean={case.get('far', 0.0):g}"]


SUBS = [
    Sub("marginal", _pool, _strategy_marg, _run_marg, _nontrivial_marg, _labels_marg,
        examples={"quick": 150, "thorough": 700}, shards={"quick": 8, "thorough": 16}, rule=">=2 unsorted coordinates or R>=2"),
    Sub("linear_sum", _pool, _strategy_lin, _run_lin, _nontrivial_lin, _labels_lin,
        examples={"quick": 150, "thorough": 700}, shards={"quick": 8, "thorough": 16}, rule="K>=2 or R>=2"),
]
