"""C09 - conditional transformation is Bayes' rule and is invertible."""
import numpy as np

from .. import oracle
from ..compare import Failure, check, lib
from ..sub import Sub
from . import _cond

RULE = "Non-trivial: batch combo != (1,1) or Dx != Dy. Layout rc*Rx+rx; round trips taken slice by slice."
BOUNDS = {"Dx,Dy": "1..4 (thorough ..5)", "batch n": "2..4", "N points": "1..3"}
ASSUMPTIONS = ["right-hand side ln p(y|x) + ln p(x) - ln p(y) computed in numpy from the defining inputs",
               "round-trip comparisons skipped (counted as excluded) when the posterior covariance has cond > 1e6"]


def _run(case):
    from .. import libx
    from ..libx import J
    import jax.numpy as jnp

    fails = []
    fam = _cond.fam(case)
    M, b, S, mu, Sig = _cond.np_inputs(case)
    Dx, Dy, N = case["Dx"], case["Dy"], case["N"]
    ok, cu = lib(fails, "construct_cond", libx.make_cond, case["c"])
    if not ok:
        return fails
    c, kw = cu
    ok, px = lib(fails, "construct_px", libx.make_measure, "pdf", case["px"])
    if not ok:
        return fails
    tag = f"conditional[{fam}]"
    ok, post = lib(fails, tag, lambda: c.affine_conditional_transformation(px, **kw))
    if not ok:
        return fails
    x, y = np.asarray(case["x"], float), np.asarray(case["y"], float)
    R = case["Rc"] * case["Rx"]
    if int(post.R) != R or int(post.Dx) != Dy or int(post.Dy) != Dx:
        fails.append(Failure(tag + ":shape", f"p(x|y) has R={post.R}, Dx={post.Dx}, Dy={post.Dy}; expected R={R}, Dx={Dy}, Dy={Dx}"))
        return fails
    # parameters of p(x|y) against the information form (Lambda_post = Lambda_x + M' Lambda_y M), which stays accurate when the
    # observation is much sharper than the prior
    Ly_, Lx_ = oracle.inv_spd(S), oracle.inv_spd(Sig)
    Mp, bp, Sp, Lp = [], [], [], []
    for r, rc, rx in _cond.pairs(case):
        Lpost = Lx_[rx] + M[rc].T @ Ly_[rc] @ M[rc]
        Lpost = 0.5 * (Lpost + Lpost.T)
        Spost = oracle.inv_spd(Lpost[None])[0]
        Mp.append(Spost @ M[rc].T @ Ly_[rc])
        bp.append(Spost @ (Lx_[rx] @ mu[rx] - M[rc].T @ Ly_[rc] @ b[rc]))
        Sp.append(Spost)
        Lp.append(Lpost)
    Mp, bp, Sp, Lp = np.stack(Mp), np.stack(bp), np.stack(Sp), np.stack(Lp)
    kpost = np.maximum(1.0, oracle.cond(Lp))
    if np.all(kpost < 1e6):
        amp_ = (kpost * np.maximum(1.0, oracle.cond(S))[[rc for _, rc, _ in _cond.pairs(case)]])[:, None, None]
        check(fails, tag + ":post_Sigma", np.asarray(post.Sigma), Sp, np.abs(Sp).max((1, 2))[:, None, None] * amp_ * np.ones_like(Sp))
        check(fails, tag + ":post_Lambda", np.asarray(post.Lambda), Lp, np.abs(Lp).max((1, 2))[:, None, None] * amp_ * np.ones_like(Lp))
        check(fails, tag + ":post_M", np.asarray(post.M), Mp, (1 + np.abs(Mp).max((1, 2)))[:, None, None] * amp_ * np.ones_like(Mp))
        bsc = (1 + np.abs(mu).max() + np.abs(b).max() + np.abs(Mp).max((1, 2)) * (np.abs(b).max() + np.abs(M).max() * np.abs(mu).max()))
        check(fails, tag + ":post_b", np.asarray(post.b), bp, bsc[:, None] * amp_[:, :, 0] * np.ones_like(bp))
        ldp, ldps = oracle.slogdet_spd(Lp)
        check(fails, tag + ":post_ln_det_Sigma", np.asarray(post.ln_det_Sigma), -ldp, ldps)
    if case.get("sharp"):
        return fails  # the log-density and round-trip comparisons below use covariance-form references: not judged here
    want = np.zeros((R, N))
    scale = np.zeros_like(want)
    mys, Sys = [], []
    for r, rc, rx in _cond.pairs(case):
        v1, s1 = _cond.ln_cond(M[rc:rc + 1], b[rc:rc + 1], S[rc:rc + 1], x, y)
        v2, s2 = oracle.mvn_ln_elem(x, np.broadcast_to(mu[rx], x.shape), np.broadcast_to(Sig[rx], (N, Dx, Dx)))
        my = M[rc] @ mu[rx] + b[rc]
        Sy = S[rc] + M[rc] @ Sig[rx] @ M[rc].T
        Sy = 0.5 * (Sy + Sy.T)
        v3, s3 = oracle.mvn_ln_elem(y, np.broadcast_to(my, y.shape), np.broadcast_to(Sy, (N, Dy, Dy)))
        want[r] = v1[0] + v2 - v3
        scale[r] = s1[0] + s2 + s3
        mys.append(my)
        Sys.append(Sy)
    if np.any(oracle.cond(np.stack(Sys)) > 1e6):
        fails.append(Failure("excluded:ill_conditioned_derived", "marginal covariance cond > 1e6"))
        return fails
    # p(x|y=y_n) evaluated at x_n: condition_on_x layout r*N+n
    ok, d = (False, None) if case.get("far_mean") else lib(fails, tag + "(y)", lambda: post(J(y)))
    if ok:
        if int(d.R) != R * N:
            fails.append(Failure(tag + ":cond_layout", f"post(y) has R={d.R}, expected {R*N}"))
        else:
            ok, ev = lib(fails, tag + "(y).evaluate_ln", lambda: d.evaluate_ln(J(x)))
            if ok:
                ev = np.asarray(ev).reshape(R, N, N)
                got = np.stack([ev[:, n, n] for n in range(N)], 1)
                check(fails, tag + ":bayes_rule", got, want, scale)
    # round trips, slice by slice
    ok, py = lib(fails, f"marginal[{fam}]", lambda: c.affine_marginal_transformation(px, **kw))
    if not ok:
        return fails
    kapS = oracle.cond(np.asarray(post.Sigma))
    if np.any(kapS > 1e6):
        fails.append(Failure("excluded:ill_conditioned_derived", "posterior covariance cond > 1e6"))
        return fails
    for r, rc, rx in _cond.pairs(case):
        ok, pr = lib(fails, tag + ".slice", lambda: post.slice(jnp.array([r])))
        ok2, pyr = lib(fails, "marginal.slice", lambda: py.slice(jnp.array([r])))
        if not (ok and ok2):
            break
        ok, back = lib(fails, tag + ":roundtrip_cond", lambda: pr.affine_conditional_transformation(pyr))
        if ok:
            amp = max(1.0, float(kapS[r])) ** 0.5 * max(1.0, float(oracle.cond(S[rc][None])[0])) ** 0.5
            check(fails, tag + ":roundtrip_M", np.asarray(back.M)[0], M[rc], (1 + np.abs(M[rc]).max()) * amp * np.ones_like(M[rc]))
            check(fails, tag + ":roundtrip_b", np.asarray(back.b)[0], b[rc], (1 + np.abs(b[rc]).max() + np.abs(M[rc]).max() * (1 + np.abs(mu[rx]).max())) * amp * np.ones_like(b[rc]))
            check(fails, tag + ":roundtrip_Sigma", np.asarray(back.Sigma)[0], S[rc], np.abs(S[rc]).max() * amp * np.ones_like(S[rc]))
        ok, pxb = lib(fails, tag + ":roundtrip_marg", lambda: pr.affine_marginal_transformation(pyr))
        if ok:
            amp = max(1.0, float(oracle.cond(Sig[rx][None])[0])) ** 0.5 * max(1.0, float(kapS[r])) ** 0.5
            check(fails, tag + ":roundtrip_px_mu", np.asarray(pxb.mu)[0], mu[rx], (1 + np.abs(mu[rx]).max()) * amp * np.ones_like(mu[rx]))
            check(fails, tag + ":roundtrip_px_Sigma", np.asarray(pxb.Sigma)[0], Sig[rx], np.abs(Sig[rx]).max() * amp * np.ones_like(Sig[rx]))
    return fails


def _nontrivial(case):
    return case["Rc"] * case["Rx"] >= 2 or case["Dx"] != case["Dy"]


SUBS = [
    Sub("conditional", _cond.pool, lambda shapes: _cond.strategy(shapes, far_mean=True, sharp=True), _run, _nontrivial, _cond.labels,
        examples={"quick": 120, "thorough": 400}, shards={"quick": 12, "thorough": 28},
        rule="batch combo != (1,1) or Dx != Dy"),
]
