"""C07 - joint transformation is the chain rule p(x,y) = p(y|x) p(x)."""
import numpy as np

from .. import oracle
from ..compare import Failure, check, lib
from ..sub import Sub
from . import _cond

RULE = "Non-trivial: batch combo != (1,1) or both Dx,Dy >= 2. Layout rc*Rx+rx, x first."
BOUNDS = {"Dx,Dy": "1..4 (thorough ..5)", "batch n": "2..4", "N points": "1..3"}
ASSUMPTIONS = ["reference ln N(y; Mx+b, S) + ln N(x; mu, Sigma) computed by numpy Cholesky from the defining inputs",
               "NN-control: M(u), b(u) recomputed in numpy from the generated tanh-MLP weights"]


def _run(case):
    from .. import libx
    from ..libx import J

    fails = []
    fam = _cond.fam(case)
    M, b, S, mu, Sig = _cond.np_inputs(case)
    Dx, Dy = case["Dx"], case["Dy"]
    ok, cu = lib(fails, "construct_cond", libx.make_cond, case["c"])
    if not ok:
        return fails
    c, kw = cu
    ok, px = lib(fails, "construct_px", libx.make_measure, "pdf", case["px"])
    if not ok:
        return fails
    tag = f"joint[{fam}]"
    ok, j = lib(fails, tag, lambda: c.affine_joint_transformation(px, **kw))
    if not ok:
        return fails
    x, y = np.asarray(case["x"], float), np.asarray(case["y"], float)
    z = np.concatenate([x, y], 1)
    R = case["Rc"] * case["Rx"]
    if int(j.R) != R or int(j.D) != Dx + Dy:
        fails.append(Failure(tag + ":shape", f"joint has R={j.R}, D={j.D}; expected R={R}, D={Dx+Dy}"))
        return fails
    want = np.zeros((R, x.shape[0]))
    scale = np.zeros_like(want)
    mus, Sigs = [], []
    for r, rc, rx in _cond.pairs(case):
        v1, s1 = _cond.ln_cond(M[rc:rc + 1], b[rc:rc + 1], S[rc:rc + 1], x, y)
        v2, s2 = oracle.mvn_ln(x, mu[rx:rx + 1], Sig[rx:rx + 1])
        want[r] = v1[0] + v2[0]
        scale[r] = s1[0] + s2[0]
        m_, S_ = _cond.joint_moments(M[rc], b[rc], S[rc], mu[rx], Sig[rx])
        mus.append(m_)
        Sigs.append(S_)
    mus, Sigs = np.stack(mus), np.stack(Sigs)
    kap = oracle.cond(Sigs)
    if np.any(kap > 1e6):
        fails.append(Failure("excluded:ill_conditioned_derived", "joint covariance cond > 1e6"))
        return fails
    ok, got = (False, None) if case.get("far_mean") else lib(fails, tag + ".evaluate_ln", lambda: j.evaluate_ln(J(z)))
    if ok:
        # the joint is evaluated in information form: its natural scale includes |z|^2 * |Lambda|
        Lj = oracle.inv_spd(Sigs)
        nat = 0.5 * np.einsum("nd,rde,ne->rn", np.abs(z), np.abs(Lj), np.abs(z)) + np.einsum("rd,rde,ne->rn", np.abs(mus), np.abs(Lj), np.abs(z))
        check(fails, tag + ":chain_rule", got, want, scale + nat * np.maximum(1.0, kap)[:, None] ** 0.5)
    sn = np.abs(Sigs).max((1, 2))[:, None, None] * np.ones_like(Sigs)
    check(fails, tag + ":mu", np.asarray(j.mu), mus, 1 + np.abs(mus))
    check(fails, tag + ":Sigma", np.asarray(j.Sigma), Sigs, sn)
    # returned precision / log-determinant belong to the returned covariance
    Lam = np.asarray(j.Lambda)
    I = np.broadcast_to(np.eye(Dx + Dy), Lam.shape)
    check(fails, tag + ":Sigma_Lambda_identity", np.einsum("rij,rjk->rik", Sigs, Lam), I, kap[:, None, None] * np.ones_like(Lam))
    ld, lds = oracle.slogdet_spd(Sigs)
    check(fails, tag + ":ln_det_Sigma", np.asarray(j.ln_det_Sigma), ld, lds)
    return fails


SUBS = [
    Sub("joint", _cond.pool, lambda shapes: _cond.strategy(shapes, far_mean=True), _run, _cond.nontrivial, _cond.labels,
        examples={"quick": 150, "thorough": 500}, shards={"quick": 12, "thorough": 28},
        rule="batch combo != (1,1) or Dx,Dy>=2"),
]
