"""C14 - expected log-factor and expected log-conditional integrals are exact."""
import numpy as np
from hypothesis import strategies as st

from .. import gen, oracle
from ..compare import Failure, check, lib
from ..sub import Sub

RULE = ("Non-trivial: log-factor: D >= 2; linear conditionals: Dx+Dy >= 3 or R_q >= 2; feature models: >= 2 kernels or Dx = 2, "
        "with non-zero offsets and an arbitrary (not model-generated) Gaussian q.")
BOUNDS = {"D": "1..4", "Dx": "1..3 (feature models: 1..2 for quadrature)", "Dy": "1..3", "kernels": "1..3", "R_q": "1..3"}
ASSUMPTIONS = [
    "linear models: closed form -1/2 [tr(L A Sq A') + (A mq - b)' L (A mq - b) + ln det S + Dy ln 2pi] in numpy",
    "feature models: y-integral analytic given x (q(y|x) Gaussian), x-integral by tensor Gauss-Hermite at two resolutions "
    "(48 and 64 nodes per dimension); a case whose two resolutions differ by more than 1e-10*scale is counted as excluded:oracle_unconverged",
    "kernel functions as DOCUMENTED: RBF exp(-|(x-s)/l|^2/2), squared exponential exp(-(w'x+w0)^2/2)",
]


# --------------------------------------------------------------------------- log factor
def _pool_lf(tier):
    base = [(1, 1), (2, 2), (3, 3), (4, 1), (2, 4), (3, 2)]
    if tier == "thorough":
        base += [(4, 3), (1, 3), (3, 1), (4, 4), (2, 1), (1, 2)]
    return base


def _strategy_lf(shapes):
    @st.composite
    def s(draw):
        D, R = draw(st.sampled_from(shapes))
        mkind = draw(st.sampled_from(gen.MEASURE_KINDS))
        fkind = draw(st.sampled_from(gen.FACTOR_KINDS))
        Rf = draw(st.sampled_from([1, R]))
        kappa = draw(st.sampled_from([10.0, 100.0]))
        return {"D": D, "R": R, "Rf": Rf, "mkind": mkind, "fkind": fkind, "cache": draw(st.sampled_from(gen.CACHES)),
                "m": draw(gen.measure_params(mkind, R, D, kappa)), "f": draw(gen.factor_params(fkind, Rf, D, kappa))}
    return s()


def _run_lf(case):
    from .. import libx

    fails = []
    R = case["R"]
    Lm, nu, lb = libx.measure_params_np(case["mkind"], case["m"])
    Lf, nuf, lbf = libx.factor_params_np(case["fkind"], case["f"])
    mu, Sig = oracle.mean_cov(Lm, nu)
    lnm, lsc = oracle.ln_mass(Lm, nu, lb)
    t1 = -0.5 * (np.einsum("rij,rji->r", np.broadcast_to(Lf, (R,) + Lf.shape[1:]), Sig) + np.einsum("ri,rij,rj->r", mu, np.broadcast_to(Lf, (R,) + Lf.shape[1:]), mu))
    t2 = np.einsum("ri,ri->r", np.broadcast_to(nuf, (R, nuf.shape[1])), mu)
    t3 = np.broadcast_to(lbf, (R,))
    want = np.exp(lnm) * (t1 + t2 + t3)
    kap = np.maximum(1.0, oracle.cond(Lm))
    scale = np.exp(lnm) * lsc * kap * (1.0 + np.abs(t1) + np.abs(np.broadcast_to(nuf, (R, nuf.shape[1]))) @ np.ones(nuf.shape[1]) * (1 + np.abs(mu).max(1)) + np.abs(t3))
    ok, m = lib(fails, "construct_measure", libx.make_measure, case["mkind"], case["m"], case["cache"])
    ok2, f = lib(fails, "construct_factor", libx.make_factor, case["fkind"], case["f"])
    if not (ok and ok2):
        return fails
    ok, got = lib(fails, f"log_factor[{case['fkind']}]", lambda: m.integrate("log u(x)", factor=f))
    if ok:
        check(fails, f"log_factor[{case['fkind']}]", got, want, scale)
    return fails


# --------------------------------------------------------------------------- linear conditionals
def _pool_lin(tier):
    # (Dx, Dy, Rq, N)
    base = [(1, 1, 1, 1), (2, 2, 2, 2), (3, 2, 1, 3), (2, 3, 3, 1), (1, 2, 2, 2), (3, 3, 1, 2), (2, 1, 3, 3), (3, 1, 2, 1)]
    if tier == "thorough":
        base += [(1, 3, 1, 2), (2, 2, 1, 1), (3, 3, 3, 3), (1, 1, 3, 2), (3, 2, 2, 2), (2, 3, 1, 3)]
    return base


def _strategy_lin(shapes):
    @st.composite
    def s(draw):
        Dx, Dy, Rq, N = draw(st.sampled_from(shapes))
        kind = draw(st.sampled_from(gen.COND_KINDS))
        if kind in ("identity", "identity_diag"):
            Dy = Dx
        kappa = draw(st.sampled_from([10.0, 100.0]))
        paired_c = kind in ("full", "diag") and draw(st.booleans())
        Rc = Rq if paired_c else 1
        px_mode = draw(st.sampled_from(["single", "paired"]))
        return {"Dx": Dx, "Dy": Dy, "Rq": Rq, "N": N, "kind": kind, "Rc": Rc, "px_mode": px_mode,
                "c": draw(gen.cond_params(kind, Rc, Dx, Dy, kappa)),
                "c1": draw(gen.cond_params(kind, 1, Dx, Dy, kappa)),
                "q": draw(gen.measure_params("pdf", Rq, Dy + Dx, kappa)),
                "px": draw(gen.measure_params("pdf", 1 if px_mode == "single" else N, Dx, kappa)),
                "y": draw(gen.arr((N, Dy), -2.5, 2.5))}
    return s()


def _elc_linear(M, b, S, mq, Sq, Dy):
    """E_q ln N(y; Mx+b, S), q over z=(y,x)."""
    L = oracle.inv_spd(S[None])[0]
    A = np.concatenate([np.eye(Dy), -M], 1)
    e = A @ mq - b
    tr = np.trace(L @ A @ Sq @ A.T)
    quad = e @ L @ e
    ld, ls = oracle.slogdet_spd(S[None])
    val = -0.5 * (tr + quad + ld[0] + Dy * oracle.LN2PI)
    sc = 1.0 + 0.5 * (abs(tr) + abs(quad) + ls[0] + Dy * oracle.LN2PI)
    return val, sc


def _run_lin(case):
    from .. import libx
    from ..libx import J

    fails = []
    fam = "identity" if case["kind"].startswith("identity") else case["kind"]
    Dx, Dy, Rq, N = case["Dx"], case["Dy"], case["Rq"], case["N"]
    M, b, S = gen.cond_np(case["c"])
    mq, Sq = np.asarray(case["q"]["mu"], float), np.asarray(case["q"]["Sigma"], float)
    ok, cu = lib(fails, "construct_cond", libx.make_cond, case["c"])
    ok2, q = lib(fails, "construct_q", libx.make_measure, "pdf", case["q"])
    if not (ok and ok2):
        return fails
    c, kw = cu
    want = np.zeros(Rq)
    scale = np.zeros(Rq)
    for r in range(Rq):
        rc = r if case["Rc"] > 1 else 0
        want[r], scale[r] = _elc_linear(M[rc], b[rc], S[rc], mq[r], Sq[r], Dy)
    kap = np.maximum(1.0, oracle.cond(S))
    kap = np.broadcast_to(kap, (Rq,)) if kap.shape[0] == Rq else np.full(Rq, kap[0])
    tag = f"integrate_log_conditional[{fam}]"
    ok, got = lib(fails, tag, lambda: c.integrate_log_conditional(q, **kw))
    if ok:
        check(fails, tag, got, want, scale * kap)
    # integrate_log_conditional_y with a single conditional (documented restriction R = 1)
    M1, b1, S1 = gen.cond_np(case["c1"])
    ok, cu1 = lib(fails, "construct_cond1", libx.make_cond, case["c1"])
    ok2, px = lib(fails, "construct_px", libx.make_measure, "pdf", case["px"])
    if not (ok and ok2):
        return fails
    c1, kw1 = cu1
    mx, Sx = np.asarray(case["px"]["mu"], float), np.asarray(case["px"]["Sigma"], float)
    y = np.asarray(case["y"], float)
    L = oracle.inv_spd(S1)[0]
    ld, ls = oracle.slogdet_spd(S1)
    wy = np.zeros(N)
    sy = np.zeros(N)
    for n in range(N):
        r = 0 if case["px_mode"] == "single" else n
        e = y[n] - M1[0] @ mx[r] - b1[0]
        tr = np.trace(L @ M1[0] @ Sx[r] @ M1[0].T)
        quad = e @ L @ e
        wy[n] = -0.5 * (quad + tr + ld[0] + Dy * oracle.LN2PI)
        sy[n] = 1.0 + 0.5 * (abs(quad) + abs(tr) + ls[0] + Dy * oracle.LN2PI) + np.abs(y[n]) @ np.abs(L) @ (np.abs(M1[0]) @ np.abs(mx[r]) + np.abs(b1[0])) * 2
    k1 = max(1.0, float(oracle.cond(S1)[0]))
    tag = f"integrate_log_conditional_y[{fam}]"
    ok, fn = lib(fails, tag + ":callable", lambda: c1.integrate_log_conditional_y(px, **kw1))
    if ok:
        if not callable(fn):
            fails.append(Failure(tag + ":not_callable", "integrate_log_conditional_y(p_x) did not return a callable"))
        else:
            ok, got = lib(fails, tag + ":callable(y)", lambda: fn(J(y)))
            if ok:
                check(fails, tag + ":callable", got, wy, sy * k1)
    ok, got = lib(fails, tag + ":evaluated", lambda: c1.integrate_log_conditional_y(px, y=J(y), **kw1))
    if ok:
        check(fails, tag + ":evaluated", got, wy, sy * k1)
    return fails


# --------------------------------------------------------------------------- feature models
def _pool_feat(tier):
    # (Dx, Dy, Dk, Rq, N)
    base = [(1, 1, 1, 1, 1), (1, 2, 2, 2, 2), (2, 1, 2, 1, 1), (2, 2, 3, 2, 2), (1, 3, 3, 1, 3), (2, 2, 1, 3, 1), (3, 2, 4, 2, 2), (4, 3, 5, 1, 1), (1, 2, 5, 2, 1), (2, 2, 17, 1, 1), (3, 1, 18, 2, 2)]
    if tier == "thorough":
        base += [(2, 3, 2, 1, 2), (1, 1, 3, 3, 3), (2, 1, 1, 2, 3), (1, 2, 1, 1, 2), (3, 3, 2, 3, 2), (5, 1, 3, 1, 1), (2, 2, 5, 2, 2)]
    return base


def _strategy_feat(shapes):
    @st.composite
    def s(draw):
        Dx, Dy, Dk, Rq, N = draw(st.sampled_from(shapes))
        kind = draw(st.sampled_from(gen.FEATURE_KINDS))
        px_mode = draw(st.sampled_from(["single", "paired"]))
        Rp = 1 if px_mode == "single" else N
        return {"Dx": Dx, "Dy": Dy, "Dk": Dk, "Rq": Rq, "N": N, "kind": kind, "px_mode": px_mode,
                "c": draw(gen.feature_params(kind, Dx, Dy, Dk)),
                "q": {"Sigma": draw(gen.spd(Rq, Dy + Dx, kappa=6.0, lam_lo=0.15, lam_hi=0.4)), "mu": draw(gen.arr((Rq, Dy + Dx), -1.5, 1.5))},
                "px": {"Sigma": draw(gen.spd(Rp, Dx, kappa=6.0, lam_lo=0.15, lam_hi=0.4)), "mu": draw(gen.arr((Rp, Dx), -1.5, 1.5))},
                "y": draw(gen.arr((N, Dy), -2.5, 2.5)), "give_px": draw(st.booleans()),
                # objects with a past: conditional built with another noise covariance, queried, then update_Sigma to the
                # target; p(x) first handed to integrate_log_conditional_y, then updated in place
                "past": _past(draw, kind, Dx, Dy, Dk),
                "upd": _px_update(draw, Rp, Dx) if draw(st.sampled_from([False, False, True])) else None}
    return s()


def _past(draw, kind, Dx, Dy, Dk):
    """None (two thirds), or the parameters the object is built with before it is brought to the target ones."""
    which = draw(st.sampled_from([None, None, None, None, "Sigma", "kernels", "both"]))
    if which is None:
        return None
    past = {}
    if which in ("Sigma", "both"):
        past["Sigma0"] = draw(gen.spd(1, Dy, kappa=30.0))
    if which in ("kernels", "both"):
        k0 = draw(gen.feature_params(kind, Dx, Dy, Dk))
        past["kernels0"] = {k: k0[k] for k in (("mu", "length_scale") if kind == "lrbf" else ("W",))}
    return past


def _px_update(draw, R, Dx):
    k = draw(st.integers(1, R))
    idx = list(draw(st.permutations(list(range(R))))[:k])
    return {"idx": idx, "p": {"Sigma": draw(gen.spd(k, Dx, kappa=6.0, lam_lo=0.15, lam_hi=0.4)), "mu": draw(gen.arr((k, Dx), -1.5, 1.5))}}


def _elc_feature_closed(M, b, S, forms, mq, Sq, Dy, Dx):
    """E_q ln N(y; M [x; k(x)] + b, S) for q over z=(y,x) from closed-form Gaussian-kernel expectations."""
    L = oracle.inv_spd(S[None])[0]
    ld, ls = oracle.slogdet_spd(S[None])
    Mx, Mk = M[:, :Dx], M[:, Dx:]
    my, mx = mq[:Dy], mq[Dy:]
    Syy, Syx, Sxx = Sq[:Dy, :Dy], Sq[:Dy, Dy:], Sq[Dy:, Dy:]
    Ek, Ekx, Ekk = oracle.kernel_moments(mx, Sxx, forms)
    G = Syx @ oracle.inv_spd(Sxx[None])[0]
    # r = y - Mx x - b  (linear-Gaussian part)
    Amat = np.concatenate([np.eye(Dy), -Mx], 1)
    er = Amat @ mq - b
    t_lin = np.trace(L @ Amat @ Sq @ Amat.T) + er @ L @ er
    # E[r k_i] = (E[y|x] - Mx x - b) k_i integrated: (my - G mx - b) E k_i + (G - Mx) E[x k_i]
    Erk = np.outer(my - G @ mx - b, Ek) + (G - Mx) @ Ekx.T  # [Dy, Dk]
    t_cross = np.trace(L @ Erk @ Mk.T)
    t_kk = np.trace(Mk.T @ L @ Mk @ Ekk)
    val = -0.5 * (t_lin - 2 * t_cross + t_kk + ld[0] + Dy * oracle.LN2PI)
    sc = 1.0 + 0.5 * (abs(t_lin) + 2 * abs(t_cross) + abs(t_kk) + ls[0] + Dy * oracle.LN2PI)
    return val, sc


def _elcy_feature_closed(M, b, S, forms, y, mx, Sx, Dy, Dx):
    """E_{p(x)} ln N(y; M [x; k(x)] + b, S) for a fixed y."""
    mq = np.concatenate([y, mx])
    Sq = np.zeros((Dy + Dx, Dy + Dx))
    Sq[Dy:, Dy:] = Sx
    # a point mass in y: reuse the joint formula with Syy = Syx = 0 (G = 0)
    L = oracle.inv_spd(S[None])[0]
    ld, ls = oracle.slogdet_spd(S[None])
    Mx, Mk = M[:, :Dx], M[:, Dx:]
    Ek, Ekx, Ekk = oracle.kernel_moments(mx, Sx, forms)
    er = y - Mx @ mx - b
    t_lin = np.trace(L @ Mx @ Sx @ Mx.T) + er @ L @ er
    Erk = np.outer(y - b, Ek) - Mx @ Ekx.T
    t_cross = np.trace(L @ Erk @ Mk.T)
    t_kk = np.trace(Mk.T @ L @ Mk @ Ekk)
    val = -0.5 * (t_lin - 2 * t_cross + t_kk + ld[0] + Dy * oracle.LN2PI)
    sc = 1.0 + 0.5 * (abs(t_lin) + 2 * abs(t_cross) + abs(t_kk) + ls[0] + Dy * oracle.LN2PI)
    return val, sc


def _gh(mu, Sig, g, n):
    X, w = oracle.gauss_hermite_nd(mu, Sig, n)
    v = g(X)
    return float(w @ v), float(w @ np.abs(v))


def _run_feat(case):
    from .. import libx
    from ..libx import J
    import jax.numpy as jnp

    fails = []
    kind = case["kind"]
    Dx, Dy, Rq, N = case["Dx"], case["Dy"], case["Rq"], case["N"]
    M, b, S, kfun = libx.feature_np(case["c"])
    forms = oracle.kernel_forms(case["c"])
    L = oracle.inv_spd(S[None])[0]
    ld, ls = oracle.slogdet_spd(S[None])
    const = ld[0] + Dy * oracle.LN2PI

    def mean_fn(X):
        return np.concatenate([X, kfun(X)], 1) @ M.T + b  # [Q,Dy]

    c = libx.feature_with_past(fails, case["c"], case.get("past"))
    ok2, q = lib(fails, "construct_q", libx.make_measure, "pdf", case["q"])
    if c is None or not ok2:
        return fails
    mq, Sq = np.asarray(case["q"]["mu"], float), np.asarray(case["q"]["Sigma"], float)
    want, scale, conv = np.zeros(Rq), np.zeros(Rq), True
    for r in range(Rq):
        my, mxq = mq[r, :Dy], mq[r, Dy:]
        Syy, Syx, Sxx = Sq[r, :Dy, :Dy], Sq[r, :Dy, Dy:], Sq[r, Dy:, Dy:]
        G = Syx @ oracle.inv_spd(Sxx[None])[0]
        Sc = Syy - G @ Syx.T
        trc = np.trace(L @ Sc)

        def g(X):
            e = my[None] + (X - mxq[None]) @ G.T - mean_fn(X)
            return -0.5 * (np.einsum("qi,ij,qj->q", e, L, e) + trc + const)

        cf, cfs = _elc_feature_closed(M, b, S, forms, mq[r], Sq[r], Dy, Dx)
        if Dx <= 2:
            v1, a1 = _gh(mxq, Sxx, g, 48)
            v2, a2 = _gh(mxq, Sxx, g, 64)
            want[r], scale[r] = v2, 1.0 + a2 + ls[0]
            if abs(v1 - v2) > 1e-10 * scale[r]:
                conv = False
            elif abs(cf - v2) > 1e-7 * (scale[r] + cfs):
                raise AssertionError(f"closed-form and quadrature oracles disagree: {cf} vs {v2}")  # oracle error -> harness
        else:
            want[r], scale[r] = cf, cfs
    kS = max(1.0, float(oracle.cond(S[None])[0]))
    tag = f"integrate_log_conditional[{kind}]"
    if not conv:
        fails.append(Failure("excluded:oracle_unconverged", tag))
    else:
        kwargs = {}
        if case["give_px"]:
            ok, pxq = lib(fails, "q.get_marginal", lambda: q.get_marginal(jnp.arange(Dy, Dy + Dx)))
            if ok:
                kwargs["p_x"] = pxq
        ok, got = lib(fails, tag, lambda: c.integrate_log_conditional(q, **kwargs))
        if ok:
            check(fails, tag, got, want, scale * kS)
    # integrate_log_conditional_y
    y = np.asarray(case["y"], float)
    px, mx, Sx = libx.density_with_past(fails, "pdf", case["px"], case.get("upd"),
                                        warm=lambda p: c.integrate_log_conditional_y(p, y=J(y)))
    if px is None:
        return fails
    wy, sy, conv = np.zeros(N), np.zeros(N), True
    for n in range(N):
        r = 0 if case["px_mode"] == "single" else n

        def g(X):
            e = y[n][None] - mean_fn(X)
            return -0.5 * (np.einsum("qi,ij,qj->q", e, L, e) + const)

        cf, cfs = _elcy_feature_closed(M, b, S, forms, y[n], mx[r], Sx[r], Dy, Dx)
        if Dx <= 2:
            v1, a1 = _gh(mx[r], Sx[r], g, 48)
            v2, a2 = _gh(mx[r], Sx[r], g, 64)
            wy[n], sy[n] = v2, 1.0 + a2 + ls[0]
            if abs(v1 - v2) > 1e-10 * sy[n]:
                conv = False
            elif abs(cf - v2) > 1e-7 * (sy[n] + cfs):
                raise AssertionError(f"closed-form and quadrature oracles disagree: {cf} vs {v2}")  # oracle error -> harness
        else:
            wy[n], sy[n] = cf, cfs
    tag = f"integrate_log_conditional_y[{kind}]"
    if not conv:
        fails.append(Failure("excluded:oracle_unconverged", tag))
        return fails
    ok, fn = lib(fails, tag + ":callable", lambda: c.integrate_log_conditional_y(px))
    if ok:
        ok, got = lib(fails, tag + ":callable(y)", lambda: fn(J(y)))
        if ok:
            check(fails, tag + ":callable", got, wy, sy * kS)
    ok, got = lib(fails, tag + ":evaluated", lambda: c.integrate_log_conditional_y(px, y=J(y)))
    if ok:
        check(fails, tag + ":evaluated", got, wy, sy * kS)
    return fails


SUBS = [
    Sub("log_factor", _pool_lf, _strategy_lf, _run_lf, lambda c: c["D"] >= 2,
        lambda c: [f"mkind={c['mkind']}", f"fkind={c['fkind']}", "Rf=1" if c["Rf"] == 1 else "Rf=R"],
        examples={"quick": 120, "thorough": 600}, shards={"quick": 6, "thorough": 12}, rule="D>=2"),
    Sub("linear", _pool_lin, _strategy_lin, _run_lin, lambda c: c["Dx"] + c["Dy"] >= 3 or c["Rq"] >= 2,
        lambda c: [f"kind={c['kind']}", f"Rc={'Rq' if c['Rc'] > 1 else 1}", f"px={c['px_mode']}"],
        examples={"quick": 100, "thorough": 500}, shards={"quick": 8, "thorough": 14}, rule="Dx+Dy>=3 or Rq>=2"),
    Sub("feature", _pool_feat, _strategy_feat, _run_feat, lambda c: c["Dk"] >= 2 or c["Dx"] >= 2,
        lambda c: [f"kind={c['kind']}", f"Dx={c['Dx']}", f"px={c['px_mode']}", f"give_px={c['give_px']}", f"Dk={'>16' if c['Dk'] > 16 else '<=5'}",
                   ("cond_past=" + "+".join(sorted(k.rstrip("0") for k in c["past"]))) if c.get("past") else "cond_fresh", "px_past=update" if c.get("upd") else "px_fresh"],
        examples={"quick": 40, "thorough": 250}, shards={"quick": 9, "thorough": 16}, rule="Dk>=2 or Dx>=2"),
]
