"""C18 - JAX transformations and round trips preserve values."""
import numpy as np
from hypothesis import strategies as st

from .. import gen, oracle
from ..compare import Failure, check, lib
from ..sub import Sub

RULE = ("Boundary crossings: every factor / measure / density / linear-conditional class, cold and warm, through tree flatten/unflatten, "
        "jit argument, jit result, lax.scan carry and to_dict/from_dict; non-trivial = warm caches or R*D >= 2. "
        "Pipelines: generated programs of 1-4 library operations run eagerly, under jit, under vmap over a data axis, and differentiated "
        "(reverse mode vs central differences along drawn directions); non-trivial = >= 2 operations and a non-zero finite-difference response.")
BOUNDS = {"D,Dx,Dy": "1..3", "R": "1..3", "pipeline length": "1..4 ops", "fd step": "1e-5", "grad rtol": "1e-5 (1e-3 for variational-bound outputs)"}
ASSUMPTIONS = [
    "eager execution is the reference for jit / vmap; central differences (h=1e-5) are the reference for gradients, with their own truncation error (estimated from the step 2h) added to the tolerance",
    "SPD parameters enter pipelines through a factor G (Sigma = G G' + 0.5 I) so that perturbations stay in the domain",
    "non-smooth links are differentiated only where |h| stays away from 0 by construction (offset >= 0.05)",
]

CLASSES = ["general", "rank_one", "linear", "constant", "measure", "diag_measure", "pdf", "diag_pdf",
           "cond_full", "cond_diag", "cond_identity", "cond_identity_diag"]
CROSSINGS = ["flatten", "jit_arg", "jit_result", "scan_carry", "to_dict", "scan_carry_rebuilt", "scan_xs"]
# scan_carry_rebuilt: the loop body returns an object BUILT BY AN OPERATION (slice) of the carried class, so the tree structures of a
# constructor-built (possibly queried / sampled-from) object and of an operation-built one must agree; a measure with filled caches
# is not asked to (its lazily filled fields are part of its structure on the pinned tree).  scan_xs: the batch of a general factor,
# a cold measure or a full conditional is consumed component by component as the scanned-over input of a loop.


def _pool_b(tier):
    base = [(1, 1), (2, 2), (3, 1), (2, 3)]
    if tier == "thorough":
        base += [(3, 3), (1, 3), (3, 2), (2, 1)]
    return base


def _strategy_b(shapes):
    @st.composite
    def s(draw):
        D, R = draw(st.sampled_from(shapes))
        cls = draw(st.sampled_from(CLASSES))
        crossing = draw(st.sampled_from(CROSSINGS))
        kappa = draw(st.sampled_from([10.0, 50.0]))
        case = {"D": D, "R": R, "cls": cls, "crossing": crossing, "warm": draw(st.booleans()), "sampled": draw(st.booleans()),
                "x": draw(gen.arr((2, D), -2, 2)), "y": draw(gen.arr((2, D), -2, 2))}
        if cls in ("general", "rank_one", "linear", "constant"):
            case["p"] = draw(gen.factor_params(cls, R, D, kappa))
        elif cls in gen.MEASURE_KINDS:
            case["p"] = draw(gen.measure_params(cls, R, D, kappa))
        else:
            kind = cls[5:]
            case["p"] = draw(gen.cond_params(kind, R, D, D, kappa))
        return case
    return s()


def _build(case):
    from .. import libx

    cls = case["cls"]
    if cls in ("general", "rank_one", "linear", "constant"):
        return libx.make_factor(cls, case["p"])
    if cls in gen.MEASURE_KINDS:
        if case["crossing"] in ("scan_carry_rebuilt", "scan_xs") and cls in ("measure", "diag_measure"):
            return libx.make_measure(cls, case["p"], "cold")
        m = libx.make_measure(cls, case["p"], "full" if case["warm"] else "cold")
        if case.get("sampled") and cls in ("pdf", "diag_pdf"):
            import jax

            m.sample(jax.random.PRNGKey(3), 2)  # a density that has been sampled from
        return m
    return libx.make_cond(case["p"])[0]


def _value(obj, x, y):
    """The function an object evaluates to, as an array (factors/measures: evaluate_ln(x); conditionals: cond(x)(y))."""
    if hasattr(obj, "evaluate_ln"):
        return obj.evaluate_ln(x)
    return obj(x).evaluate_ln(y)


def _run_b(case):
    import jax
    import jax.numpy as jnp
    from ..libx import J

    fails = []
    cls, crossing = case["cls"], case["crossing"]
    x, y = J(case["x"]), J(case["y"])
    ok, obj = lib(fails, "construct", _build, case)
    if not ok:
        return fails
    ok, ref = lib(fails, "eager_value", lambda: np.asarray(_value(obj, x, y)))
    if not ok:
        return fails
    tag = f"{crossing}[{cls}]"
    scale = 1.0 + np.abs(ref)
    if crossing == "flatten":
        def go():
            leaves, treedef = jax.tree_util.tree_flatten(obj)
            return jax.tree_util.tree_unflatten(treedef, leaves)
        ok, o2 = lib(fails, tag, go)
        if ok:
            ok, got = lib(fails, tag + ".value", lambda: np.asarray(_value(o2, x, y)))
            if ok:
                check(fails, tag + ":value", got, ref, scale)
            if type(o2) is not type(obj):
                fails.append(Failure(tag + ":type", f"unflatten returned {type(o2).__name__}, expected {type(obj).__name__}"))
    elif crossing == "jit_arg":
        ok, got = lib(fails, tag, lambda: np.asarray(jax.jit(lambda o, x_, y_: _value(o, x_, y_))(obj, x, y)))
        if ok:
            check(fails, tag + ":value", got, ref, scale)
    elif crossing == "jit_result":
        leaves, treedef = jax.tree_util.tree_flatten(obj) if False else (None, None)

        def make(o):
            # returns a (transformed) object of the same class from inside a jitted function
            return o.slice(jnp.arange(o.R)) if hasattr(o, "slice") else o
        ok, o2 = lib(fails, tag, lambda: jax.jit(make)(obj))
        if ok:
            ok, got = lib(fails, tag + ".value", lambda: np.asarray(_value(o2, x, y)))
            if ok:
                check(fails, tag + ":value", got, ref, scale)
    elif crossing == "scan_carry":
        def step(carry, _):
            return carry, _value(carry, x, y)
        ok, res = lib(fails, tag, lambda: jax.lax.scan(step, obj, jnp.arange(2)))
        if ok:
            o2, outs = res
            check(fails, tag + ":scan_output", np.asarray(outs)[1], ref, scale)
            ok, got = lib(fails, tag + ".value", lambda: np.asarray(_value(o2, x, y)))
            if ok:
                check(fails, tag + ":value", got, ref, scale)
    elif crossing == "scan_carry_rebuilt":
        if not hasattr(obj, "slice"):
            return fails
        ok, probe = lib(fails, tag + ".slice", lambda: obj.slice(jnp.arange(int(obj.R))))
        if not ok or type(probe) is not type(obj):
            return fails  # slice() of this class hands back another class (diagonal conditionals): not a same-class loop body

        def step2(carry, _):
            return carry.slice(jnp.arange(int(carry.R))), _value(carry, x, y)
        ok, res = lib(fails, tag, lambda: jax.lax.scan(step2, obj, jnp.arange(2)))
        if ok:
            o2, outs = res
            check(fails, tag + ":scan_output", np.asarray(outs)[1], ref, scale)
            ok, got = lib(fails, tag + ".value", lambda: np.asarray(_value(o2, x, y)))
            if ok:
                check(fails, tag + ":value", got, ref, scale)
    elif crossing == "scan_xs":
        if cls not in ("general", "measure", "cond_full"):
            return fails

        def body(carry, comp):
            one = jax.tree_util.tree_map(lambda a: a[None], comp)
            return carry, _value(one, x, y)
        ok, res = lib(fails, tag, lambda: jax.lax.scan(body, 0.0, obj))
        if ok:
            outs = np.asarray(res[1])  # [R, 1, N] (factor / measure) or [R, N, N] (conditional: cond(x) has N components)
            check(fails, tag + ":scan_output", outs.reshape(ref.shape), ref, scale)
    elif crossing == "to_dict":
        if not hasattr(obj, "to_dict"):
            return fails
        ok, o2 = lib(fails, tag, lambda: type(obj).from_dict(obj.to_dict()))
        if ok:
            ok, got = lib(fails, tag + ".value", lambda: np.asarray(_value(o2, x, y)))
            if ok:
                check(fails, tag + ":value", got, ref, scale)
    return fails


def _nontrivial_b(case):
    return case["warm"] or case["R"] * case["D"] >= 2


def _labels_b(case):
    return [f"cls={case['cls']}", f"crossing={case['crossing']}", f"warm={case['warm']}", f"sampled={bool(case.get('sampled')) and case['cls'] in ('pdf', 'diag_pdf')}"]


# ------------------------------------------------------------------------------------------ pipelines
def _pool_p(tier):
    # (D, R, N data rows)
    base = [(1, 1, 1), (2, 2, 2), (3, 1, 2), (2, 1, 3)]
    if tier == "thorough":
        base += [(3, 2, 1), (1, 2, 2), (2, 3, 1), (3, 3, 2)]
    return base


_FK = ["general", "rank_one", "linear", "constant"]
_TERMINALS = ["log_integral", "evaluate_ln", "integrate_x", "integrate_xx", "integrate_lin", "integrate_quad_inner", "integrate_quad_outer",
              "integrate_cubic_inner", "integrate_cubic_outer", "integrate_xAxx", "integrate_xbxx", "integrate_quartic_inner",
              "integrate_quartic_outer", "log_factor", "entropy_kl", "sample"]
_PIPES = ["joint_eval", "marginal_eval", "bayes_posterior", "set_y_evidence", "cond_entropies", "log_conditional",
          "condition_on_dims", "kalman_scan", "lrbf_marginal", "lsem_log_conditional_y", "truncated", "nn_control", "update_in_program", "condition_explicit_traced"] + \
         [f"{p_}:{l_}" for p_ in ("het_moments", "het_bound") for l_ in ("exp", "cosh", "heaviside", "relu")]


def _pool_named(names):
    """every terminal / pipe is paired with shapes in rotation, so each one is generated in every run."""
    def pool(tier):
        shapes = _pool_p(tier)
        reps = 2 if tier == "quick" else 4
        out = []
        for r in range(reps):
            for i, nm in enumerate(names):
                out.append(shapes[(i + r * 3) % len(shapes)] + (nm,))
        return out
    return pool



def _strategy_chain(shapes):
    from .. import pipes  # noqa: F401  (imports jax; only names are used here)

    @st.composite
    def s(draw):
        D, R, N, term = draw(st.sampled_from(shapes))
        start = draw(st.sampled_from(gen.MEASURE_KINDS))
        nmid = draw(st.integers(0, 3))
        mid, shapes_ = [], dict(pipes.start_param_shapes(start, R, D))
        Rc = R
        for k in range(nmid):
            op = draw(st.sampled_from(["multiply", "multiply", "hadamard", "product", "get_density", "slice"]))
            if op in ("multiply", "hadamard"):
                fk = draw(st.sampled_from(_FK))
                R2 = draw(st.sampled_from([1, 2])) if op == "multiply" else draw(st.sampled_from([1, Rc]))
                if op == "multiply" and Rc * R2 > 6:
                    R2 = 1
                # a rank-one factor whose weight is exactly zero, taken through the low-rank update of a cached covariance (the
                # operand is a density or the result of an earlier product with update_full=True)
                warm = start in ("pdf", "diag_pdf") or any(m_.get("update_full") for m_ in mid)
                gz = fk == "rank_one" and warm and draw(st.booleans())
                mid.append({"op": op, "fkind": fk, "update_full": True if gz else draw(st.booleans()), "g_zero": gz})
                for nm, sh in pipes.factor_param_shapes(fk, R2, D).items():
                    shapes_[f"f{k}{nm}"] = sh
                if op == "multiply":
                    Rc *= R2
            elif op == "slice":
                idx = draw(gen.index_array(Rc, 1, 2, allow_negative=False))
                mid.append({"op": op, "idx": idx})
                Rc = len(idx)
            else:
                mid.append({"op": op})
                if op == "product":
                    Rc = 1
        K = draw(st.integers(1, 2))
        shapes_["tA"] = (K, D)
        shapes_["tB"] = (K + 1, D)
        P = {nm: draw(gen.arr(sh, -1.2, 1.2)) for nm, sh in sorted(shapes_.items())}
        iso = _isotropic(draw, P)
        return {"family": "chain", "isotropic": iso, "D": D, "R": R, "N": N, "start": start, "mid": mid, "terminal": term, "P": P,
                "d": draw(gen.arr((2, N, D), -1.5, 1.5)), "w_seed": draw(st.integers(0, 10**6)),
                "dirs": draw(st.integers(0, 10**6)), "jit_first": draw(st.booleans())}
    return s()


def _strategy_cond(shapes):
    from .. import pipes

    @st.composite
    def s(draw):
        D, R, N, pipe = draw(st.sampled_from(shapes))
        link = None
        if ":" in pipe:
            pipe, link = pipe.split(":")
        kind = draw(st.sampled_from(["full", "diag", "identity", "identity_diag"]))
        Dx = min(D, 2) if pipe in ("lrbf_marginal", "lsem_log_conditional_y", "het_bound", "het_moments") else D
        Dy = Dx if kind.startswith("identity") else draw(st.integers(1, 2))
        if pipe in ("lrbf_marginal", "lsem_log_conditional_y", "het_moments", "het_bound", "nn_control"):
            kind = "full"
            Dy = draw(st.integers(1, 2))
        case = {"family": "cond", "pipe": pipe, "kind": kind, "Dx": Dx, "Dy": Dy, "N": N,
                "link": link or draw(st.sampled_from(gen.HET_KINDS)), "dims": [Dx + Dy - 1] if Dx + Dy > 1 else [0]}
        if pipe == "condition_on_dims" and Dx + Dy < 2:
            case["pipe"] = "joint_eval"
        shapes_ = pipes.cond_param_shapes(case["pipe"], Dx, Dy, kind)
        if case["pipe"] in ("lrbf_marginal", "lsem_log_conditional_y") and "SG" not in shapes_:
            shapes_["SG"] = (1, Dy, Dy)
        case["P"] = {nm: draw(gen.arr(sh, -1.0, 1.0)) for nm, sh in sorted(shapes_.items())}
        case["isotropic"] = _isotropic(draw, case["P"])
        if case["pipe"] in ("het_moments", "het_bound") and case["link"] in ("heaviside", "relu"):
            case["dead_unit"] = draw(st.sampled_from([False, False, True]))
        if case["pipe"] == "condition_explicit_traced":
            # a partition of the Dx + Dy joint coordinates into Dx free and Dy conditioned-on ones, in arbitrary order
            perm = list(draw(st.permutations(list(range(Dx + Dy)))))
            case["P"]["ia"] = np.array(perm[:Dx], float)
            case["P"]["ib"] = np.array(perm[Dx:], float)
        case["d"] = draw(gen.arr((2, max(N, 2) if case["pipe"] == "kalman_scan" else N, Dx + Dy), -1.5, 1.5))
        case["w_seed"] = draw(st.integers(0, 10**6))
        case["dirs"] = draw(st.integers(0, 10**6))
        case["jit_first"] = draw(st.booleans())
        return case
    return s()


def _isotropic(draw, P):
    """Exact structure inside the differentiated programs (a fifth of the cases): every matrix parameter G (the program uses
    G G' + I/2) becomes a multiple of the identity, so the covariance / precision it builds is exactly isotropic - repeated
    eigenvalues - while its derivative with respect to G is not zero."""
    if not draw(st.sampled_from([False] * 4 + [True])):
        return False
    for k in sorted(P):
        A = np.asarray(P[k], float)
        if k.endswith("G") and A.ndim == 3 and A.shape[1] == A.shape[2] and A.shape[1] >= 2:
            a = draw(gen.arr((A.shape[0],), 0.5, 1.2))
            P[k] = a[:, None, None] * np.broadcast_to(np.eye(A.shape[1]), A.shape)
    return True


def _lcg(seed, n):
    """deterministic pseudo-random weights in [-1,1] derived from a drawn integer (part of the case, so replayable)."""
    out, x = [], (seed * 2654435761 + 12345) % (2**32)
    for _ in range(n):
        x = (1664525 * x + 1013904223) % (2**32)
        out.append(x / 2**31 - 1.0)
    return np.array(out)


def _run_p(case):
    import jax
    import jax.numpy as jnp
    from .. import pipes
    from ..libx import J

    fails = []
    P = {k: J(v) for k, v in case["P"].items()}
    dB = J(case["d"])  # [2, N, *]
    d0 = dB[0]
    if case["family"] == "chain":
        F = lambda P_, d_: pipes.chain(case, P_, d_)
        tag = f"chain[{case['terminal']}]"
        bound = False
    else:
        case2 = dict(case)
        case2["_dims_arr"] = jnp.array(case["dims"])
        F = lambda P_, d_: pipes.cond_pipe(case2, P_, d_)
        tag = f"pipe[{case['pipe']}" + (f":{case['link']}" if case["pipe"].startswith("het") else "") + "]"
        bound = case["pipe"] == "het_bound"
    # order of execution: in half of the cases the jitted program runs BEFORE the eager reference (state that a trace
    # leaves behind in the library - memoised helpers, module-level caches - must not change or break later eager calls)
    got_first = None
    if case.get("jit_first"):
        okj, got_first = lib(fails, tag + ".jit_before_eager", lambda: np.asarray(jax.jit(F)(P, d0)))
        if not okj:
            got_first = None
    ok, ref = lib(fails, tag + (".eager_after_jit" if case.get("jit_first") else ".eager"), lambda: np.asarray(F(P, d0)))
    if not ok:
        return fails
    if not np.all(np.isfinite(ref)):
        fails.append(Failure("excluded:nonfinite_reference", tag))
        return fails
    scale = 1.0 + np.abs(ref)
    tol = 1e-6 if bound else 1e-8
    # (ii) jit
    ok, got = (True, got_first) if got_first is not None else lib(fails, tag + ".jit", lambda: np.asarray(jax.jit(F)(P, d0)))
    if ok:
        check(fails, tag + ":jit", got, ref, scale, tol=tol)
    # (iii) vmap over the data axis vs stacked eager calls
    ok, ref1 = lib(fails, tag + ".eager2", lambda: np.asarray(F(P, dB[1])))
    if ok:
        ok, got = lib(fails, tag + ".vmap", lambda: np.asarray(jax.vmap(lambda dd: F(P, dd))(dB)))
        if ok:
            want = np.stack([ref, ref1])
            check(fails, tag + ":vmap", got, want, 1.0 + np.abs(want), tol=tol)
    # (iv) reverse-mode gradient vs central differences along drawn directions
    w = _lcg(case["w_seed"], ref.size).reshape(ref.shape)
    wj = J(w)
    scal = lambda P_: jnp.sum(wj * F(P_, d0))
    scal_fd = jax.jit(scal)  # finite differences use the jitted program (jit == eager is judged above)
    ok, g = lib(fails, tag + ".grad", lambda: jax.grad(scal)(P))
    if not ok:
        return fails
    names = sorted(P)
    sizes = [int(np.prod(P[k].shape)) for k in names]
    tot = sum(sizes)
    h = 1e-5
    resp = 0.0
    for t in range(3):
        dv = _lcg(case["dirs"] + 7919 * t, tot)
        dv = dv / np.linalg.norm(dv)
        off, Pp, Pm, gd = 0, {}, {}, 0.0
        for k, sz in zip(names, sizes):
            piece = dv[off:off + sz].reshape(P[k].shape)
            off += sz
            Pp[k] = P[k] + h * J(piece)
            Pm[k] = P[k] - h * J(piece)
            gk = np.asarray(g[k])
            gd += float(np.sum(gk * piece))
        ok, fd = lib(fails, tag + ".fd", lambda: (float(scal_fd(Pp)) - float(scal_fd(Pm))) / (2 * h))
        if not ok:
            return fails
        # truncation error of the central difference (h^2 times the third derivative / 6), estimated from the step 2h: a polynomial
        # integrand of degree four has third derivatives of order 1e2, which at h = 1e-5 is 1e-8 - visible when the true derivative
        # is (nearly) zero
        Pp2 = {k: P[k] + 2 * (Pp[k] - P[k]) for k in names}
        Pm2 = {k: P[k] + 2 * (Pm[k] - P[k]) for k in names}
        ok, fd2 = lib(fails, tag + ".fd", lambda: (float(scal_fd(Pp2)) - float(scal_fd(Pm2))) / (4 * h))
        if not ok:
            return fails
        fd_err = abs(fd - fd2)
        f0 = float(np.sum(w * ref))
        rtol = 1e-3 if bound else 1e-5
        # variational bounds: the optimiser's variational parameters are held fixed (stop_gradient) after a fixed-point
        # iteration stopped at 1e-5, so their gradient is exact only up to that stopping error: judged relative to the value
        sc = max(abs(gd), abs(fd)) + (3e-2 if bound else 1e-3) * (abs(f0) + 1.0)
        resp = max(resp, abs(fd))
        if not np.isfinite(gd):
            fails.append(Failure(tag + ":grad_nonfinite", f"{tag}: gradient not finite"))
            break
        if abs(gd - fd) > rtol * sc + 1e-9 + fd_err:
            fails.append(Failure(tag + ":grad", f"{tag}: directional derivative {gd!r} vs central difference {fd!r} (rel {abs(gd-fd)/sc:.2e})"))
            break
    case["_resp"] = resp
    return fails


def _nontrivial_p(case):
    nops = (len(case["mid"]) + 1) if case["family"] == "chain" else 2
    return nops >= 2 and case.get("_resp", 0.0) > 0.0


def _labels_p(case):
    if case["family"] == "chain":
        return [f"start={case['start']}", f"terminal={case['terminal']}", f"nmid={len(case['mid'])}", "jit_first" if case.get("jit_first") else "eager_first", "isotropic_matrices" if case.get("isotropic") else "generic_matrices"] + [f"mid={m['op']}" + (f"/{m['fkind']}" if "fkind" in m else "") for m in case["mid"]]
    return [f"pipe={case['pipe']}", f"kind={case['kind']}", "jit_first" if case.get("jit_first") else "eager_first", "isotropic_matrices" if case.get("isotropic") else "generic_matrices"] + ([f"link={case['link']}"] if case["pipe"].startswith("het") else [])


SUBS = [
    Sub("boundary", _pool_b, _strategy_b, _run_b, _nontrivial_b, _labels_b,
        examples={"quick": 60, "thorough": 300}, shards={"quick": 8, "thorough": 16}, rule="warm caches or R*D>=2"),
    Sub("chains", _pool_named(_TERMINALS), _strategy_chain, _run_p, _nontrivial_p, _labels_p,
        examples={"quick": 6, "thorough": 16}, shards={"quick": 15, "thorough": 30}, rule=">=2 ops and non-zero finite-difference response"),
    Sub("cond_pipes", _pool_named(_PIPES), _strategy_cond, _run_p, _nontrivial_p, _labels_p,
        examples={"quick": 5, "thorough": 12}, shards={"quick": 20, "thorough": 40}, rule="non-zero finite-difference response"),
]
