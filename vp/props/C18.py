"""C18 - JAX transformations and round trips preserve values."""
import numpy as np
from hypothesis import strategies as st

from .. import gen, oracle
from ..compare import Failure, check, lib
from ..sub import Sub

RULE = ("Boundary crossings: every factor / measure / density / linear-conditional class, cold and warm, through tree flatten/unflatten, "
        "jit argument, jit result, lax.scan carry and to_dict/from_dict; non-trivial = warm caches or R*D >= 2. "
        "Pipelines: generated programs of 1-4 library operations run eagerly, under jit, under vmap over a data axis, and differentiated "
        "(reverse mode vs central differences along drawn directions); non-trivial = >= 2 operations and a non-zero finite-difference response.")
BOUNDS = {"D,Dx,Dy": "1..3", "R": "1..3", "pipeline length": "1..4 ops", "fd step": "1e-5", "grad rtol": "1e-5 (1e-3 for variational-bound outputs)"}
ASSUMPTIONS = [
    "eager execution is the reference for jit / vmap; central differences (h=1e-5) are the reference for gradients",
    "SPD parameters enter pipelines through a factor G (Sigma = G G' + 0.5 I) so that perturbations stay in the domain",
    "non-smooth links are differentiated only where |h| stays away from 0 by construction (offset >= 0.05)",
]

CLASSES = ["general", "rank_one", "linear", "constant", "measure", "diag_measure", "pdf", "diag_pdf",
           "cond_full", "cond_diag", "cond_identity", "cond_identity_diag"]
CROSSINGS = ["flatten", "jit_arg", "jit_result", "scan_carry", "to_dict"]


def _pool_b(tier):
    base = [(1, 1), (2, 2), (3, 1), (2, 3)]
    if tier == "thorough":
        base += [(3, 3), (1, 3), (3, 2), (2, 1)]
    return base


def _strategy_b(shapes):
    @st.composite
    def s(draw):
        D, R = draw(st.sampled_from(shapes))
        cls = draw(st.sampled_from(CLASSES))
        crossing = draw(st.sampled_from(CROSSINGS))
        kappa = draw(st.sampled_from([10.0, 50.0]))
        case = {"D": D, "R": R, "cls": cls, "crossing": crossing, "warm": draw(st.booleans()),
                "x": draw(gen.arr((2, D), -2, 2)), "y": draw(gen.arr((2, D), -2, 2))}
        if cls in ("general", "rank_one", "linear", "constant"):
            case["p"] = draw(gen.factor_params(cls, R, D, kappa))
        elif cls in gen.MEASURE_KINDS:
            case["p"] = draw(gen.measure_params(cls, R, D, kappa))
        else:
            kind = cls[5:]
            case["p"] = draw(gen.cond_params(kind, R, D, D, kappa))
        return case
    return s()


def _build(case):
    from .. import libx

    cls = case["cls"]
    if cls in ("general", "rank_one", "linear", "constant"):
        return libx.make_factor(cls, case["p"])
    if cls in gen.MEASURE_KINDS:
        return libx.make_measure(cls, case["p"], "full" if case["warm"] else "cold")
    return libx.make_cond(case["p"])[0]


def _value(obj, x, y):
    """The function an object evaluates to, as an array (factors/measures: evaluate_ln(x); conditionals: cond(x)(y))."""
    if hasattr(obj, "evaluate_ln"):
        return obj.evaluate_ln(x)
    return obj(x).evaluate_ln(y)


def _run_b(case):
    import jax
    import jax.numpy as jnp
    from ..libx import J

    fails = []
    cls, crossing = case["cls"], case["crossing"]
    x, y = J(case["x"]), J(case["y"])
    ok, obj = lib(fails, "construct", _build, case)
    if not ok:
        return fails
    ok, ref = lib(fails, "eager_value", lambda: np.asarray(_value(obj, x, y)))
    if not ok:
        return fails
    tag = f"{crossing}[{cls}]"
    scale = 1.0 + np.abs(ref)
    if crossing == "flatten":
        def go():
            leaves, treedef = jax.tree_util.tree_flatten(obj)
            return jax.tree_util.tree_unflatten(treedef, leaves)
        ok, o2 = lib(fails, tag, go)
        if ok:
            ok, got = lib(fails, tag + ".value", lambda: np.asarray(_value(o2, x, y)))
            if ok:
                check(fails, tag + ":value", got, ref, scale)
            if type(o2) is not type(obj):
                fails.append(Failure(tag + ":type", f"unflatten returned {type(o2).__name__}, expected {type(obj).__name__}"))
    elif crossing == "jit_arg":
        ok, got = lib(fails, tag, lambda: np.asarray(jax.jit(lambda o, x_, y_: _value(o, x_, y_))(obj, x, y)))
        if ok:
            check(fails, tag + ":value", got, ref, scale)
    elif crossing == "jit_result":
        leaves, treedef = jax.tree_util.tree_flatten(obj) if False else (None, None)

        def make(o):
            # returns a (transformed) object of the same class from inside a jitted function
            return o.slice(jnp.arange(o.R)) if hasattr(o, "slice") else o
        ok, o2 = lib(fails, tag, lambda: jax.jit(make)(obj))
        if ok:
            ok, got = lib(fails, tag + ".value", lambda: np.asarray(_value(o2, x, y)))
            if ok:
                check(fails, tag + ":value", got, ref, scale)
    elif crossing == "scan_carry":
        def step(carry, _):
            return carry, _value(carry, x, y)
        ok, res = lib(fails, tag, lambda: jax.lax.scan(step, obj, jnp.arange(2)))
        if ok:
            o2, outs = res
            check(fails, tag + ":scan_output", np.asarray(outs)[1], ref, scale)
            ok, got = lib(fails, tag + ".value", lambda: np.asarray(_value(o2, x, y)))
            if ok:
                check(fails, tag + ":value", got, ref, scale)
    elif crossing == "to_dict":
        if not hasattr(obj, "to_dict"):
            return fails
        ok, o2 = lib(fails, tag, lambda: type(obj).from_dict(obj.to_dict()))
        if ok:
            ok, got = lib(fails, tag + ".value", lambda: np.asarray(_value(o2, x, y)))
            if ok:
                check(fails, tag + ":value", got, ref, scale)
    return fails


def _nontrivial_b(case):
    return case["warm"] or case["R"] * case["D"] >= 2


def _labels_b(case):
    return [f"cls={case['cls']}", f"crossing={case['crossing']}", f"warm={case['warm']}"]


SUBS = [
    Sub("boundary", _pool_b, _strategy_b, _run_b, _nontrivial_b, _labels_b,
        examples={"quick": 60, "thorough": 300}, shards={"quick": 8, "thorough": 16}, rule="warm caches or R*D>=2"),
]
