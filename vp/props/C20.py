"""C20 - truncated one-dimensional Gaussian measures integrate correctly."""
import numpy as np
from hypothesis import strategies as st

from .. import gen, oracle
from ..compare import Failure, check, lib
from ..sub import Sub

RULE = ("Non-trivial: interval mass between 1e-12 and 1-1e-6 of the total, ln_beta != 0, nu != 0; classes two-sided / lower-only / "
        "upper-only / far tail / k >= 3.")
BOUNDS = {"R": "1..4", "k": "0..6", "limits": "within +-12 sigma of the mode, scalar or per component, one- or two-sided"}
ASSUMPTIONS = [
    "reference integrals by scipy.integrate.quad (epsrel 1e-12) of x^k u(x) with u evaluated in numpy, infinite limits clipped at "
    "mean +- 14 sigma (neglected mass < 1e-40 relative), breakpoints at mean +- {1,3,6} sigma",
    "tolerance 1e-8 relative to the integral of |x|^k u(x) over the real line (absolute in the far tail, as the property states)",
]


def _pool(tier):
    base = [(1,), (2,), (3,), (4,)]
    return base


MODES = ["two_sided", "lower_only", "upper_only", "far_tail", "near_mode"]


def _strategy(shapes):
    @st.composite
    def s(draw):
        (R,) = draw(st.sampled_from(shapes))
        # unit of x (sigma ~ unit) and distance of the mean from the origin in standard deviations
        unit = draw(st.sampled_from([1.0, 1.0, 1.0, 1e-3, 1e3]))
        far = draw(st.sampled_from([1.0, 1.0, 1.0, 1.0, 10.0, 100.0]))
        lam = draw(gen.arr((R,), 0.2, 5.0)) / unit**2
        nu = draw(gen.arr((R,), -3, 3)) * far / unit
        lb = draw(gen.arr((R,), -2, 2))
        if far > 1.0:
            lb = lb - 0.5 * nu**2 / lam  # keeps the total mass exp(lb + nu^2 / (2 lam)) * sqrt(2 pi / lam) representable
        mode = draw(st.sampled_from(MODES))
        per = draw(st.booleans())
        n = R if per else 1
        # limits in standardised units, converted with component 0's (or each component's) mean / sd
        if mode == "far_tail":
            za = draw(gen.arr((n,), 4.0, 11.0))
            zb = za + draw(gen.arr((n,), 0.2, 3.0))
            if draw(st.booleans()):
                za, zb = -zb, -za
        elif mode == "near_mode":
            za = draw(gen.arr((n,), -0.8, 0.0))
            zb = za + draw(gen.arr((n,), 0.05, 1.0))
        else:
            za = draw(gen.arr((n,), -3.0, 1.5))
            zb = za + draw(gen.arr((n,), 0.1, 4.0))
        mu, sd = nu / lam, 1.0 / np.sqrt(lam)
        m0, s0 = (mu, sd) if per else (mu[:1], sd[:1])
        coincide = draw(st.sampled_from([None] * 8 + ["lower_at_mean", "upper_at_mean"]))
        if coincide == "lower_at_mean":
            zb, za = zb - za, np.zeros_like(za)
        elif coincide == "upper_at_mean":
            za, zb = za - zb, np.zeros_like(zb)
        a = m0 + za * s0
        b = m0 + zb * s0
        if not per and (np.any(np.abs((a - mu) / sd) > 12.0) or np.any(np.abs((b - mu) / sd) > 12.0)):
            # shared scalar limits would lie beyond 12 sigma for some component (outside the stated domain):
            # use per-component limits with the same standardised positions instead
            per, n = True, R
            za, zb, = np.broadcast_to(za, (R,)), np.broadcast_to(zb, (R,))
            a, b = mu + za * sd, mu + zb * sd
        lower = None if mode == "upper_only" else (a.reshape(n, 1) if per else float(a[0]))
        upper = None if mode == "lower_only" else (b.reshape(n, 1) if per else float(b[0]))
        # per-component limits may mix finite and infinite bounds on the same side
        if per and n >= 2 and mode in ("two_sided", "near_mode", "far_tail") and draw(st.booleans()):
            side = draw(st.sampled_from(["lower", "upper", "both"]))  # "both": some components are not truncated at all
            mask = draw(st.lists(st.booleans(), min_size=n, max_size=n))
            if any(mask) and not all(mask):
                if side in ("lower", "both"):
                    lower = np.where(np.array(mask)[:, None], -np.inf, lower)
                if side in ("upper", "both"):
                    upper = np.where(np.array(mask)[:, None], np.inf, upper)
        zc = draw(gen.arr((R if per else 1,), 0.1, 0.9))
        cut = a + zc * (b - a)
        return {"R": R, "Lambda": lam.reshape(R, 1, 1), "nu": nu.reshape(R, 1), "ln_beta": lb, "mode": mode, "per": per,
                "lower": lower, "upper": upper, "cut": cut.reshape(n, 1) if per else float(cut[0]),
                "k": draw(st.integers(0, 6)), "xs": draw(gen.arr((3,), -4, 4)) * unit, "unit": unit, "far": far,
                "variant": draw(st.sampled_from(["measure", "get_density", "direct_pdf"])),
                "base": draw(st.sampled_from(["measure", "pdf"]))}
    return s()


def _quad(f, a, b, mu, sd):
    from scipy import integrate

    lo = max(a, mu - 14 * sd)
    hi = min(b, mu + 14 * sd)
    if hi <= lo:
        return 0.0, 0.0
    pts = sorted(p for p in [mu + z * sd for z in (-6, -3, -1, 0, 1, 3, 6)] if lo < p < hi)
    edges = [lo] + pts + [hi]
    tot, err = 0.0, 0.0
    for u, v in zip(edges[:-1], edges[1:]):
        val, e = integrate.quad(f, u, v, epsabs=0.0, epsrel=1e-12, limit=200)
        tot += val
        err += e
    return tot, err


def _unambiguous(xs, lo, hi):
    """Evaluation points whose side of every limit survives XLA's flush-to-zero of subnormal numbers: a point that
    differs from a limit by less than 1e-280 (without being equal to it) is dropped."""
    x = xs[:, 0]
    keep = np.ones(x.shape, bool)
    for lim in (lo, hi):
        for v in lim[np.isfinite(lim)]:
            keep &= (x == v) | (np.abs(x - v) >= 1e-280)
    return xs[keep]


def _paired_points(case, lo, hi, mu, sd):
    """One point per component: inside its interval (components with an even index) or just outside it."""
    R = len(mu)
    a = np.maximum(lo, mu - 6 * sd)
    b = np.minimum(hi, mu + 6 * sd)
    z = 0.5 + 0.4 * np.tanh(np.resize(np.asarray(case["xs"], float), R) / max(float(case.get("unit", 1.0)), 1e-300))
    xin = a + z * (b - a)
    xout = np.where(np.isfinite(hi), hi + 0.5 * sd, np.where(np.isfinite(lo), lo - 0.5 * sd, xin))  # (untruncated component: inside)
    return np.where(np.arange(R) % 2 == 0, xin, xout).reshape(R, 1)


def _limits(case, which, R):
    v = case[which]
    if v is None:
        return np.full(R, -np.inf if which == "lower" else np.inf)
    a = np.asarray(v, float)
    return np.broadcast_to(a.reshape(-1), (R,)) if a.ndim else np.full(R, float(a))


def _run(case):
    from ..libx import J
    import jax.numpy as jnp
    from gaussian_toolbox import measure, pdf
    from gaussian_toolbox.experimental import truncated_measure as tm

    fails = []
    R, k = case["R"], case["k"]
    lam = np.asarray(case["Lambda"], float)[:, 0, 0]
    nu = np.asarray(case["nu"], float)[:, 0]
    lb = np.asarray(case["ln_beta"], float)
    mu, sd = nu / lam, 1.0 / np.sqrt(lam)
    if case["base"] == "pdf":
        # base is a normalised density with the same mean / variance
        lb = -(0.5 * (nu**2 / lam + oracle.LN2PI - np.log(lam)))
    lo, hi = _limits(case, "lower", R), _limits(case, "upper", R)

    def u(r):
        return lambda x: np.exp(lb[r] + nu[r] * x - 0.5 * lam[r] * x * x)

    def jl(v):
        if v is None:
            return None
        return J(v) if isinstance(v, list) else float(v)

    def base():
        if case["base"] == "pdf":
            return pdf.GaussianPDF(Sigma=J((1.0 / lam).reshape(R, 1, 1)), mu=J(mu.reshape(R, 1)))
        return measure.GaussianMeasure(Lambda=J(case["Lambda"]), nu=J(case["nu"]), ln_beta=J(lb))

    variant = case["variant"]
    ok, t = lib(fails, "construct_truncated", lambda: tm.TruncatedGaussianMeasure(measure=base(), lower_limit=jl(case["lower"]), upper_limit=jl(case["upper"])))
    if not ok:
        return fails
    # reference moments on [a,b] and absolute scales
    mom = np.zeros((R, 7))
    tot = np.zeros((R, 7))
    for r in range(R):
        for kk in sorted({0, 1, 2, k}):
            mom[r, kk], _ = _quad(lambda x: x**kk * u(r)(x), lo[r], hi[r], mu[r], sd[r])
            tot[r, kk], _ = _quad(lambda x: np.abs(x) ** kk * u(r)(x), -np.inf, np.inf, mu[r], sd[r])
    frac = mom[:, 0] / tot[:, 0]
    case["_frac"] = float(np.min(frac))
    if variant == "measure":
        # evaluation: u(x) inside, zero outside (points inside, outside and exactly at the limits)
        xs = list(np.asarray(case["xs"], float)) + [v for v in (lo[0], hi[0]) if np.isfinite(v)]
        xs = _unambiguous(np.array(xs).reshape(-1, 1), lo, hi)
        want = np.stack([np.where((xs[:, 0] >= lo[r]) & (xs[:, 0] <= hi[r]), u(r)(xs[:, 0]), 0.0) for r in range(R)])
        ok, got = lib(fails, "evaluate", lambda: t(J(xs))) if len(xs) else (False, None)
        if ok:
            check(fails, "truncated:evaluate", got, want, np.maximum(want, 1e-300) + 1e-12 * np.exp(lb)[:, None])
        # element-wise evaluation: point r (inside component r's interval, or outside it) paired with component r
        xe = _paired_points(case, lo, hi, mu, sd)
        wante = np.array([u(r)(xe[r, 0]) if lo[r] <= xe[r, 0] <= hi[r] else 0.0 for r in range(R)])
        ok, got = lib(fails, "evaluate_elementwise", lambda: t(J(xe), element_wise=True))
        if ok:
            check(fails, "truncated:evaluate_elementwise", got, wante, np.maximum(wante, 1e-300) + 1e-12 * np.exp(lb))
        for nm, kk, kw in [("1", 0, {}), ("x", 1, {}), ("x**2", 2, {}), ("x**k", k, {"k": k})]:
            ok, got = lib(fails, f"integrate[{nm}]", lambda: t.integrate(nm, **kw))
            if ok:
                g = np.asarray(got, float).reshape(R)
                lab = f"truncated:integrate[{nm}]" + (f"k={k}" if nm == "x**k" and k == 0 else "")
                check(fails, lab, g, mom[:, kk], tot[:, kk])
        # additivity: [a,c] + [c,b] = [a,b] for 1, x, x^2
        cut = case["cut"]
        ok, tl = lib(fails, "construct_left", lambda: tm.TruncatedGaussianMeasure(measure=base(), lower_limit=jl(case["lower"]), upper_limit=jl(cut)))
        ok2, tr = lib(fails, "construct_right", lambda: tm.TruncatedGaussianMeasure(measure=base(), lower_limit=jl(cut), upper_limit=jl(case["upper"])))
        if ok and ok2:
            for nm, kk in [("1", 0), ("x", 1), ("x**2", 2)]:
                ok, parts = lib(fails, f"additivity[{nm}]", lambda: (t.integrate(nm), tl.integrate(nm), tr.integrate(nm)))
                if ok:
                    w, l_, r_ = (np.asarray(p, float).reshape(R) for p in parts)
                    check(fails, f"truncated:additivity[{nm}]", l_ + r_, w, tot[:, kk] * 2)
        return fails
    # normalised variants
    if variant == "get_density":
        ok, d = lib(fails, "get_density", lambda: t.get_density())
    else:
        ok, d = lib(fails, "direct_pdf", lambda: tm.TruncatedGaussianPDF(measure=base(), lower_limit=jl(case["lower"]), upper_limit=jl(case["upper"])))
    if not ok:
        return fails
    # The library forms the mass as Phi(beta) - Phi(alpha) (norm.cdf is accurate to its own size in the lower tail): its
    # relative error is eps * Phi(beta) / mass.  In the upper tail (Phi(beta) ~ 1) that is eps / fraction - the cancellation the
    # property's accuracy clause refers to - while an interval in the LOWER tail is resolved to full relative accuracy however
    # small its mass is.  Normalised variants are judged whenever this amplification is below 1e6.
    from scipy import stats

    amp = stats.norm.cdf((hi - mu) / sd) / np.maximum(frac, 1e-300)
    amp = np.maximum(amp, 1.0)
    if np.max(amp) > 1e6:
        fails.append(Failure("excluded:tiny_mass_normalised", "normalised variant not judged where Phi(beta)/mass > 1e6 (upper-tail cancellation)"))
        return fails
    tag = f"normalised[{variant}]"
    xs = list(np.asarray(case["xs"], float)) + [0.5 * (max(lo[0], mu[0] - 3 * sd[0]) + min(hi[0], mu[0] + 3 * sd[0]))]
    xs = _unambiguous(np.array(xs).reshape(-1, 1), lo, hi)
    want = np.stack([np.where((xs[:, 0] >= lo[r]) & (xs[:, 0] <= hi[r]), u(r)(xs[:, 0]) / mom[r, 0], 0.0) for r in range(R)])
    ok, got = lib(fails, tag + ".evaluate", lambda: d(J(xs))) if len(xs) else (False, None)
    if ok:
        check(fails, tag + ":evaluate", got, want, (np.maximum(want, 1e-300) + 1e-12) * amp[:, None])
    xe = _paired_points(case, lo, hi, mu, sd)
    wante = np.array([u(r)(xe[r, 0]) / mom[r, 0] if lo[r] <= xe[r, 0] <= hi[r] else 0.0 for r in range(R)])
    ok, got = lib(fails, tag + ".evaluate_elementwise", lambda: d(J(xe), element_wise=True))
    if ok:
        check(fails, tag + ":evaluate_elementwise", got, wante, (np.maximum(wante, 1e-300) + 1e-12) * amp)
    ok, got = lib(fails, tag + ".integral", lambda: d.integrate("1"))
    if ok:
        check(fails, tag + ":integral_one", np.asarray(got).reshape(R), np.ones(R), amp)
    m1 = mom[:, 1] / mom[:, 0]
    var = mom[:, 2] / mom[:, 0] - m1**2
    sc = (np.abs(mu) + sd) * amp
    ok, got = lib(fails, tag + ".get_mean", lambda: d.get_mean())
    if ok:
        check(fails, tag + ":mean", np.asarray(got).reshape(R), m1, sc)
    ok, got = lib(fails, tag + ".get_variance", lambda: d.get_variance())
    if ok:
        check(fails, tag + ":variance", np.asarray(got).reshape(R), var, (mu**2 + sd**2) * amp)
    ok, got = lib(fails, tag + ".integrate_x", lambda: d.integrate("x"))
    if ok:
        check(fails, tag + ":integrate_x", np.asarray(got).reshape(R), m1, sc)
    return fails


def _nontrivial(case):
    f = case.get("_frac")
    return f is not None and 1e-12 < f < 1 - 1e-6


def _labels(case):
    return [f"mode={case['mode']}", f"variant={case['variant']}", f"base={case['base']}", f"k={case['k']}", "per_component_limits" if case["per"] else "scalar_limits", f"unit={case.get('unit', 1.0):g}", f"mean_over_sd~{case.get('far', 1.0):g}"]


SUBS = [
    Sub("truncated", _pool, _strategy, _run, _nontrivial, _labels,
        examples={"quick": 100, "thorough": 700}, shards={"quick": 12, "thorough": 28}, rule="1e-12 < interval mass fraction < 1-1e-6"),
]
