"""C16 - moment matching of approximate conditionals is exact."""
import math

import numpy as np
from hypothesis import strategies as st

from .. import gen, oracle
from ..compare import Failure, check, lib
from ..sub import Sub

RULE = ("Non-trivial: non-zero offsets, (>= 2 kernels / noise units or Dx >= 2) and p(x) overlapping the non-linearity "
        "(|E h| <= 3 sd(h) for some unit) so that the link is not effectively constant.")
BOUNDS = {"Dx": "1..2 (feature models, quadrature + closed form), 3..5 (closed form); 1..3 (heteroscedastic)", "Dy": "1..3", "kernels": "1..5", "noise units": "1..3", "R_x": "1..3"}
ASSUMPTIONS = [
    "feature models: E m, E m m', E m x' by tensor Gauss-Hermite over p(x) at 48 and 64 nodes per dimension with m(x) evaluated from the "
    "DOCUMENTED kernel (unit-height bumps); unconverged cases are counted as excluded",
    "heteroscedastic models: mean is linear; E link(h) from independent closed forms (exp: exp(m+v/2); cosh-1: exp(v/2)cosh(m)-1; "
    "step: Phi(m/s); ReLU: m Phi(m/s)+s phi(m/s)) cross-checked by piecewise scipy quad with a break at h=0",
    "the conditional transformation is compared with the Gaussian conditional of the reference joint",
]


def _Phi(z):
    return 0.5 * (1.0 + math.erf(z / math.sqrt(2.0)))


def _phi(z):
    return math.exp(-0.5 * z * z) / math.sqrt(2 * math.pi)


def _E_link(kind, m, v):
    s = math.sqrt(v)
    if kind == "exp":
        return math.exp(m + 0.5 * v)
    if kind == "cosh":
        return math.exp(0.5 * v) * math.cosh(m) - 1.0
    if kind == "heaviside":
        return _Phi(m / s)
    return m * _Phi(m / s) + s * _phi(m / s)


def _E_link_quad(kind, m, v):
    from scipy import integrate
    from ..libx import het_link

    s = math.sqrt(v)
    f = lambda h: float(het_link(kind, np.array(h))) * math.exp(-0.5 * ((h - m) / s) ** 2) / (s * math.sqrt(2 * math.pi))
    lo, hi = m - 14 * s, m + 14 * s
    pts = sorted(p for p in [0.0, m - 4 * s, m, m + 4 * s] if lo < p < hi)
    edges = [lo] + pts + [hi]
    return sum(integrate.quad(f, a, b, epsabs=0, epsrel=1e-12, limit=200)[0] for a, b in zip(edges[:-1], edges[1:]))


def _cond_of_joint(mx, Sx, my, Sy, Cyx):
    Ly = oracle.inv_spd(Sy[None])[0]
    M = Cyx.T @ Ly
    b = mx - M @ my
    S = Sx - M @ Cyx
    return M, b, 0.5 * (S + S.T)


def _judge(fails, tag, fam, lib_obj_fn, case, px, refs, Dx, Dy, kf=None):
    """Compare marginal / joint / conditional transformation with the reference moments per p(x) component."""
    from ..libx import J

    Rx = len(refs)
    my = np.stack([r["my"] for r in refs]); Sy = np.stack([r["Sy"] for r in refs]); Cyx = np.stack([r["Cyx"] for r in refs])
    mx = np.stack([r["mx"] for r in refs]); Sx = np.stack([r["Sx"] for r in refs])
    sc = np.stack([r["scale"] for r in refs])
    if np.any(oracle.cond(Sy) > 1e6):
        fails.append(Failure("excluded:ill_conditioned_derived", tag))
        return
    extra = kf or {}
    s_my = (1.0 + np.abs(my)) * sc[:, None]
    s_Sy = (np.abs(Sy).max((1, 2)) * sc)[:, None, None] * np.ones_like(Sy)
    s_C = ((1 + np.abs(Cyx).max((1, 2)) + np.abs(my).max(1) * np.abs(mx).max(1)) * sc)[:, None, None] * np.ones_like(Cyx)
    c = lib_obj_fn()
    ok, pm = lib(fails, f"{tag}.marginal", lambda: c.affine_marginal_transformation(px))
    if ok:
        check(fails, f"{tag}:marginal_mu", np.asarray(pm.mu), my, s_my, **extra)
        check(fails, f"{tag}:marginal_Sigma", np.asarray(pm.Sigma), Sy, s_Sy, **extra)
    ok, pj = lib(fails, f"{tag}.joint", lambda: c.affine_joint_transformation(px))
    if ok:
        muj = np.asarray(pj.mu); Sj = np.asarray(pj.Sigma)
        if muj.shape != (Rx, Dx + Dy):
            fails.append(Failure(f"{tag}:joint_shape", f"joint mu has shape {muj.shape}, expected {(Rx, Dx + Dy)}", **extra))
        else:
            check(fails, f"{tag}:joint_mu_x", muj[:, :Dx], mx, 1 + np.abs(mx), **extra)
            check(fails, f"{tag}:joint_mu_y", muj[:, Dx:], my, s_my, **extra)
            check(fails, f"{tag}:joint_Sigma_xx", Sj[:, :Dx, :Dx], Sx, np.abs(Sx).max((1, 2))[:, None, None] * np.ones_like(Sx), **extra)
            check(fails, f"{tag}:joint_cross_cov", Sj[:, Dx:, :Dx], Cyx, s_C, **extra)
            check(fails, f"{tag}:joint_cross_cov_T", Sj[:, :Dx, Dx:], np.swapaxes(Cyx, 1, 2), np.swapaxes(s_C, 1, 2), **extra)
            check(fails, f"{tag}:joint_Sigma_yy", Sj[:, Dx:, Dx:], Sy, s_Sy, **extra)
    ok, pc = lib(fails, f"{tag}.conditional", lambda: c.affine_conditional_transformation(px))
    if ok:
        Ms, bs, Ss = [], [], []
        for r in range(Rx):
            M_, b_, S_ = _cond_of_joint(mx[r], Sx[r], my[r], Sy[r], Cyx[r])
            Ms.append(M_); bs.append(b_); Ss.append(S_)
        Ms, bs, Ss = np.stack(Ms), np.stack(bs), np.stack(Ss)
        kap = np.maximum(1.0, oracle.cond(Sy)) * sc
        check(fails, f"{tag}:conditional_M", np.asarray(pc.M), Ms, ((1 + np.abs(Ms).max((1, 2))) * kap)[:, None, None] * np.ones_like(Ms), **extra)
        check(fails, f"{tag}:conditional_b", np.asarray(pc.b), bs, ((1 + np.abs(mx).max(1) + np.abs(Ms).max((1, 2)) * (1 + np.abs(my).max(1))) * kap)[:, None] * np.ones_like(bs), **extra)
        check(fails, f"{tag}:conditional_Sigma", np.asarray(pc.Sigma), Ss, (np.abs(Sx).max((1, 2)) * kap)[:, None, None] * np.ones_like(Ss), **extra)


# ------------------------------------------------------------------------------------------ feature models
def _pool_feat(tier):
    # (Dx, Dy, Dk, Rx)
    base = [(1, 1, 1, 1), (1, 2, 2, 2), (2, 1, 2, 1), (2, 2, 3, 2), (1, 3, 3, 3), (2, 2, 1, 3), (3, 2, 4, 2), (4, 3, 5, 1), (1, 2, 5, 2), (2, 2, 17, 1), (3, 1, 20, 2), (1, 7, 2, 1), (2, 9, 1, 2)]  # the last two: Dy > 2 (Dx + Dk)
    if tier == "thorough":
        base += [(2, 3, 2, 1), (1, 1, 3, 2), (2, 1, 1, 2), (1, 2, 1, 1), (3, 3, 2, 3), (4, 1, 4, 2), (2, 2, 5, 2), (5, 2, 3, 1)]
    return base


def _strategy_feat(shapes):
    @st.composite
    def s(draw):
        Dx, Dy, Dk, Rx = draw(st.sampled_from(shapes))
        kind = draw(st.sampled_from(gen.FEATURE_KINDS))
        # p(x) is a full density or (a fifth of the cases, Dx >= 2) a GaussianDiagPDF
        px_diag = Dx >= 2 and draw(st.sampled_from([False] * 4 + [True]))
        return {"Dx": Dx, "Dy": Dy, "Dk": Dk, "Rx": Rx, "kind": kind, "c": draw(gen.feature_params(kind, Dx, Dy, Dk)),
                "px": {"Sigma": draw(gen.spd(Rx, Dx, kappa=6.0, lam_lo=0.15, lam_hi=0.4, diag=px_diag)), "mu": draw(gen.arr((Rx, Dx), -1.5, 1.5))},
                "px_diag": px_diag, "x": draw(gen.arr((3, Dx), -2, 2)), "x_int": draw(st.sampled_from([False] * 5 + [True])),
                # objects with a past (a third of the cases each): the conditional is first built with another noise
                # covariance, queried, and brought to the target with update_Sigma; p(x) is first handed to the conditional's
                # transformations and then updated in place
                "past": _past(draw, kind, Dx, Dy, Dk),
                "upd": _px_update(draw, Rx, Dx, px_diag) if draw(st.sampled_from([False, False, True])) else None}
    return s()


def _past(draw, kind, Dx, Dy, Dk):
    """None (two thirds), or the parameters the object is built with before it is brought to the target ones."""
    which = draw(st.sampled_from([None, None, None, None, "Sigma", "kernels", "both"]))
    if which is None:
        return None
    past = {}
    if which in ("Sigma", "both"):
        past["Sigma0"] = draw(gen.spd(1, Dy, kappa=30.0))
    if which in ("kernels", "both"):
        k0 = draw(gen.feature_params(kind, Dx, Dy, Dk))
        past["kernels0"] = {k: k0[k] for k in (("mu", "length_scale") if kind == "lrbf" else ("W",))}
    return past


def _px_update(draw, Rx, Dx, px_diag):
    k = draw(st.integers(1, Rx))
    idx = list(draw(st.permutations(list(range(Rx))))[:k])
    return {"idx": idx, "p": {"Sigma": draw(gen.spd(k, Dx, kappa=6.0, lam_lo=0.15, lam_hi=0.4, diag=px_diag)), "mu": draw(gen.arr((k, Dx), -1.5, 1.5))}}


def _run_feat(case):
    from .. import libx
    from ..libx import J

    fails = []
    kind, Dx, Dy, Rx, Dk = case["kind"], case["Dx"], case["Dy"], case["Rx"], case["Dk"]
    M, b, S, kfun = libx.feature_np(case["c"])

    def mean_fn(X):
        return np.concatenate([X, kfun(X)], 1) @ M.T + b

    c = libx.feature_with_past(fails, case["c"], case.get("past"))
    if c is None:
        return fails
    px, mx_now, Sx_now = libx.density_with_past(fails, "diag_pdf" if case.get("px_diag") else "pdf", case["px"], case.get("upd"),
                                                 warm=lambda p: (c.affine_joint_transformation(p), c.affine_marginal_transformation(p)))
    if px is None:
        return fails
    case = dict(case, px={"mu": mx_now, "Sigma": Sx_now})
    # read-out: conditional mean is the stated linear read-out of x and of unit-height bumps
    x = np.asarray(case["x"], float)
    xj = J(x)
    if case.get("x_int"):
        # dtype regime: integer-valued query points passed as an integer array (grid points written as integers)
        import jax.numpy as jnp

        x = np.round(x)
        xj = jnp.asarray(x.astype(np.int64))
    ok, d = lib(fails, f"{kind}.cond(x)", lambda: c(xj))
    if ok:
        check(fails, f"{kind}:readout_mu", np.asarray(d.mu), mean_fn(x), 1 + np.abs(M).sum(1)[None] * (1 + np.abs(x).max()))
        check(fails, f"{kind}:readout_Sigma", np.asarray(d.Sigma), np.broadcast_to(S, (3, Dy, Dy)), np.abs(S).max() * np.ones((3, Dy, Dy)))
    # unit height: k_i = 1 at the RBF centre / on the hyperplane where the SE argument vanishes
    if kind == "lrbf":
        pts = np.asarray(case["c"]["mu"], float)
    else:
        W = np.asarray(case["c"]["W"], float)
        w, w0 = W[:, 1:], W[:, 0]
        nrm = np.sum(w * w, 1)
        pts = np.where(nrm[:, None] > 1e-6, -w0[:, None] * w / np.maximum(nrm, 1e-300)[:, None], 0.0)
        ok_rows = nrm > 1e-6
    ok, phi = lib(fails, f"{kind}.evaluate_phi", lambda: np.asarray(c.evaluate_phi(J(pts))))
    if ok:
        diag = np.array([phi[i, Dx + i] for i in range(Dk)])
        want = np.ones(Dk)
        if kind == "lsem":
            want = np.where(ok_rows, 1.0, np.exp(-0.5 * w0**2))
        check(fails, f"{kind}:unit_height_bump", diag, want, np.ones(Dk))
    mxs, Sxs = np.asarray(case["px"]["mu"], float), np.asarray(case["px"]["Sigma"], float)
    forms = oracle.kernel_forms(case["c"])
    Mx, Mk = M[:, :Dx], M[:, Dx:]
    if Dx > 2:
        # beyond the quadrature oracle: independent closed-form Gaussian-kernel expectations (valid for any Dx, Dk)
        refs = []
        for r in range(Rx):
            Ek, Ekx, Ekk = oracle.kernel_moments(mxs[r], Sxs[r], forms)
            Exx = Sxs[r] + np.outer(mxs[r], mxs[r])
            Em = Mx @ mxs[r] + Mk @ Ek + b
            Emm = (Mx @ Exx @ Mx.T + Mx @ Ekx.T @ Mk.T + Mk @ Ekx @ Mx.T + Mk @ Ekk @ Mk.T
                   + np.outer(Mx @ mxs[r] + Mk @ Ek, b) + np.outer(b, Mx @ mxs[r] + Mk @ Ek) + np.outer(b, b))
            Emx = Mx @ Exx + Mk @ Ekx + np.outer(b, mxs[r])
            Sy = S + Emm - np.outer(Em, Em)
            Sy = 0.5 * (Sy + Sy.T)
            sc_abs = max(1.0, float(np.abs(Emm).max()))
            refs.append({"my": Em, "Sy": Sy, "Cyx": Emx - np.outer(Em, mxs[r]), "mx": mxs[r], "Sx": Sxs[r],
                         "scale": sc_abs / max(1e-12, float(np.abs(Sy).max())) + 1.0 + float(oracle.cond(Sxs[r][None])[0])})
        _judge(fails, kind, kind, lambda: c, case, px, refs, Dx, Dy)
        return fails
    refs, conv = [], True
    for r in range(Rx):
        # cross-check of the two oracles (closed form vs quadrature); a disagreement is an oracle error
        Ek_cf, Ekx_cf, Ekk_cf = oracle.kernel_moments(mxs[r], Sxs[r], forms)
        out = []
        for nq in (48, 64):
            X, w_ = oracle.gauss_hermite_nd(mxs[r], Sxs[r], nq)
            m = mean_fn(X)
            Em = w_ @ m
            Emm = np.einsum("q,qi,qj->ij", w_, m, m)
            Emx = np.einsum("q,qi,qj->ij", w_, m, X)
            out.append((Em, Emm, Emx, np.einsum("q,qi->i", w_, np.abs(m)), np.einsum("q,qi,qj->ij", w_, np.abs(m), np.abs(m))))
        (E1, E2, E3, A1, A2), (F1, F2, F3, _, _) = out[1], out[0]
        sc_abs = max(1.0, float(A2.max()))
        if max(np.abs(E1 - F1).max(), np.abs(E2 - F2).max(), np.abs(E3 - F3).max()) > 1e-10 * sc_abs:
            conv = False
        Em_cf = Mx @ mxs[r] + Mk @ Ek_cf + b
        if conv and np.max(np.abs(Em_cf - E1)) > 1e-7 * sc_abs:
            raise AssertionError(f"closed-form and quadrature kernel expectations disagree: {Em_cf} vs {E1}")  # oracle error -> harness
        Sy = S + E2 - np.outer(E1, E1)
        Sy = 0.5 * (Sy + Sy.T)
        Cyx = E3 - np.outer(E1, mxs[r])
        # cancellation E mm' - Em Em' is accounted for in the scale
        refs.append({"my": E1, "Sy": Sy, "Cyx": Cyx, "mx": mxs[r], "Sx": Sxs[r], "scale": sc_abs / max(1e-12, float(np.abs(Sy).max())) + 1.0})
    if not conv:
        fails.append(Failure("excluded:oracle_unconverged", kind))
        return fails
    _judge(fails, kind, kind, lambda: c, case, px, refs, Dx, Dy)
    return fails


def _overlap(case):
    """some unit has |E h| <= 3 sd(h) under some p(x) component."""
    mx, Sx = np.asarray(case["px"]["mu"], float), np.asarray(case["px"]["Sigma"], float)
    if case["kind"] == "lrbf":
        return True
    W = np.asarray(case["c"]["W"], float)
    for r in range(mx.shape[0]):
        mh = W[:, 1:] @ mx[r] + W[:, 0]
        sh = np.sqrt(np.einsum("ki,ij,kj->k", W[:, 1:], Sx[r], W[:, 1:]))
        if np.any(np.abs(mh) <= 3 * sh):
            return True
    return False


def _nontrivial_feat(case):
    return (case["Dk"] >= 2 or case["Dx"] >= 2) and _overlap(case)


# ------------------------------------------------------------------------------------------ heteroscedastic
def _pool_het(tier):
    # (Dx, Dy, Da, Dk, Rx)
    base = [(1, 1, 1, 1, 1), (2, 2, 2, 2, 1), (1, 2, 3, 2, 2), (3, 2, 2, 1, 1), (2, 1, 2, 2, 3), (2, 3, 3, 3, 2), (3, 1, 2, 1, 2), (1, 3, 4, 2, 1)]
    if tier == "thorough":
        base += [(3, 3, 3, 2, 3), (2, 2, 3, 3, 1), (1, 1, 2, 2, 2), (3, 2, 3, 1, 2)]
    return base


def _strategy_het(shapes):
    @st.composite
    def s(draw):
        Dx, Dy, Da, Dk, Rx = draw(st.sampled_from(shapes))
        kind = draw(st.sampled_from(gen.HET_KINDS))
        px_diag = Dx >= 2 and draw(st.sampled_from([False] * 4 + [True]))
        return {"Dx": Dx, "Dy": Dy, "Da": Da, "Dk": Dk, "Rx": Rx, "kind": kind,
                "c": draw(gen.het_params(kind, Dx, Dy, Da, Dk, wscale=draw(st.sampled_from([0.3, 1.0])))),
                "px_diag": px_diag,
                "px": draw(gen.measure_params("diag_pdf" if px_diag else "pdf", Rx, Dx, draw(st.sampled_from([5.0, 30.0])))),
                "upd": draw(gen.maybe_update("diag_pdf" if px_diag else "pdf", Rx, Dx, kappa=5.0, p=0.3)),
                "x": draw(gen.arr((3, Dx), -2, 2)), "x_int": draw(st.sampled_from([False] * 5 + [True]))}
    return s()


def _run_het(case):
    from .. import libx
    from ..libx import J

    fails = []
    kind, Dx, Dy, Da, Dk, Rx = case["kind"], case["Dx"], case["Dy"], case["Da"], case["Dk"], case["Rx"]
    p = case["c"]
    M, b, A, W = (np.asarray(p[k], float) for k in ("M", "b", "A", "W"))
    M, b, A = M[0], b[0], A[0]
    Ak = A[:, :Dk]
    AAt = A @ A.T
    ok, c = lib(fails, "construct_het", libx.make_het, p)
    if not ok:
        return fails
    # p(x) may have a past: handed to the conditional's transformations, then updated in place
    px, mx_now, Sx_now = libx.density_with_past(fails, "diag_pdf" if case.get("px_diag") else "pdf", case["px"], case.get("upd"),
                                                 warm=lambda q: (c.affine_joint_transformation(q), c.affine_marginal_transformation(q)))
    if px is None:
        return fails
    case = dict(case, px={"mu": mx_now, "Sigma": Sx_now})
    # read-out of the object itself: mean Mx+b, covariance AA' + A_k diag(link(Wx+w0)) A_k'
    x = np.asarray(case["x"], float)
    xj = J(x)
    if case.get("x_int"):
        import jax.numpy as jnp

        x = np.round(x)
        xj = jnp.asarray(x.astype(np.int64))
    h = x @ W[:, 1:].T + W[:, 0]
    Dl = libx.het_link(kind, h)
    Sx_ = AAt[None] + np.einsum("ik,nk,jk->nij", Ak, Dl, Ak)
    ok, d = lib(fails, f"het[{kind}].cond(x)", lambda: c(xj))
    if ok:
        check(fails, f"het[{kind}]:readout_mu", np.asarray(d.mu), x @ M.T + b, 1 + np.abs(M).sum(1)[None] * (1 + np.abs(x).max()))
        check(fails, f"het[{kind}]:readout_Sigma", np.asarray(d.Sigma), Sx_, np.abs(Sx_).max((1, 2))[:, None, None] * np.ones_like(Sx_))
    mxs, Sxs = np.asarray(case["px"]["mu"], float), np.asarray(case["px"]["Sigma"], float)
    refs = []
    for r in range(Rx):
        mh = W[:, 1:] @ mxs[r] + W[:, 0]
        vh = np.einsum("ki,ij,kj->k", W[:, 1:], Sxs[r], W[:, 1:])
        El = np.zeros(Dk)
        for i in range(Dk):
            if vh[i] <= 1e-24:
                El[i] = float(libx.het_link(kind, np.array(mh[i])))
            else:
                El[i] = _E_link(kind, float(mh[i]), float(vh[i]))
                if vh[i] < 1e-6 * (1.0 + mh[i] ** 2) or vh[i] > 25.0:
                    continue  # nearly deterministic h, or exponentially tilted mass outside the quadrature window: adaptive quadrature of the narrow peak is less accurate than the closed form
                q = _E_link_quad(kind, float(mh[i]), float(vh[i]))
                if abs(q - El[i]) > 1e-9 * (1 + abs(El[i])):
                    raise AssertionError(f"closed form and quadrature of E link disagree: {El[i]} vs {q}")  # oracle error -> harness
        ES = AAt + Ak @ np.diag(El) @ Ak.T
        my = M @ mxs[r] + b
        Sy = ES + M @ Sxs[r] @ M.T
        Sy = 0.5 * (Sy + Sy.T)
        Cyx = M @ Sxs[r]
        refs.append({"my": my, "Sy": Sy, "Cyx": Cyx, "mx": mxs[r], "Sx": Sxs[r], "scale": 1.0 + float(np.max(oracle.cond(Sxs[r][None]))) ** 0.5})
    _judge(fails, f"het[{kind}]", "het", lambda: c, case, px, refs, Dx, Dy)
    return fails


def _nontrivial_het(case):
    W = np.asarray(case["c"]["W"], float)
    mx, Sx = np.asarray(case["px"]["mu"], float), np.asarray(case["px"]["Sigma"], float)
    if not (case["Dk"] >= 2 or case["Dx"] >= 2):
        return False
    for r in range(mx.shape[0]):
        mh = W[:, 1:] @ mx[r] + W[:, 0]
        sh = np.sqrt(np.einsum("ki,ij,kj->k", W[:, 1:], Sx[r], W[:, 1:]))
        if np.any(np.abs(mh) <= 3 * sh) and np.any(W[:, 0] != 0):
            return True
    return False


SUBS = [
    Sub("feature", _pool_feat, _strategy_feat, _run_feat, _nontrivial_feat,
        lambda c: [f"kind={c['kind']}", f"Dx={c['Dx']}", f"Rx={c['Rx']}", f"Dk={'>16' if c['Dk'] > 16 else '<=5'}", "px=diag" if c.get("px_diag") else "px=full",
                   ("cond_past=" + "+".join(sorted(k.rstrip("0") for k in c["past"]))) if c.get("past") else "cond_fresh", "px_past=update" if c.get("upd") else "px_fresh"],
        examples={"quick": 50, "thorough": 300}, shards={"quick": 9, "thorough": 17}, rule="(Dk>=2 or Dx>=2) and overlap"),
    Sub("heteroscedastic", _pool_het, _strategy_het, _run_het, _nontrivial_het,
        lambda c: [f"kind={c['kind']}", f"Dx={c['Dx']}", f"Rx={c['Rx']}", "Da>Dy" if c["Da"] > c["Dy"] else "Da=Dy", "px=diag" if c.get("px_diag") else "px=full", "px_past=update" if c.get("upd") else "px_fresh"],
        examples={"quick": 60, "thorough": 350}, shards={"quick": 8, "thorough": 12}, rule="(Dk>=2 or Dx>=2), non-zero offsets, overlap"),
]
