"""C10 - set_y returns the likelihood x -> p(y|x) including its normaliser."""
import numpy as np
from hypothesis import strategies as st

from .. import gen, oracle
from ..compare import Failure, check, lib
from ..sub import Sub
from . import _cond

RULE = "Non-trivial: Dx != Dy or N >= 2 observations. One conditional over N observations (R=1) or R=N paired."
BOUNDS = {"Dx,Dy": "1..4", "N": "1..4"}
ASSUMPTIONS = ["reference ln N(y_i; M x_n + b, S) in numpy for every (observation i, point n)"]
LN2PI = oracle.LN2PI


def _pool(tier):
    # (Dx, Dy, Rc, N_obs, N_pts) with Rc in {1, N_obs}
    base = [(1, 1, 1, 1, 1), (2, 3, 1, 3, 2), (3, 2, 2, 2, 2), (2, 2, 1, 2, 1), (1, 2, 3, 3, 1), (3, 1, 1, 4, 2),
            (2, 4, 1, 1, 2), (4, 2, 1, 2, 1), (3, 3, 3, 3, 2), (2, 1, 2, 2, 3)]
    if tier == "thorough":
        base += [(4, 4, 1, 3, 1), (1, 3, 1, 2, 2), (3, 4, 4, 4, 1), (4, 1, 2, 2, 1), (2, 2, 4, 4, 2), (1, 1, 1, 4, 3), (4, 3, 1, 1, 1), (3, 2, 1, 3, 3)]
    return base


def _strategy(shapes):
    @st.composite
    def s(draw):
        Dx, Dy, Rc, No, Np = draw(st.sampled_from(shapes))
        kind = draw(st.sampled_from(gen.COND_KINDS))
        if kind in ("identity", "identity_diag"):
            Dy = Dx
        kappa = draw(st.sampled_from([10.0, 100.0]))
        case = {"Dx": Dx, "Dy": Dy, "Rc": Rc, "No": No, "Np": Np, "kind": kind,
                "c": draw(gen.cond_params(kind, Rc, Dx, Dy, kappa)),
                "prior": draw(gen.measure_params("pdf", 1, Dx, kappa)),
                "x": draw(gen.arr((Np, Dx), -2.5, 2.5)), "y": draw(gen.arr((No, Dy), -2.5, 2.5)),
                "idx": draw(gen.index_array(No, 1, 3))}
        # large common offset of y and b (e.g. time stamps, map coordinates): the likelihood only depends on y - b
        shift = draw(st.sampled_from([0.0, 0.0, 0.0, 0.0, 1e3, 1e5]))
        case["shift"] = shift
        if shift and kind in ("full", "diag"):
            case["c"]["b"] = np.asarray(case["c"]["b"], float) + shift
            case["y"] = np.asarray(case["y"], float) + shift
        else:
            case["shift"] = 0.0
        # dtype regime: integer-valued observations (counts, labels) passed as an INTEGER array; the offset b stays real.  Not
        # combined with a single-precision network (JAX promotes int64 with float32 to float32: the user's precision choice).
        if not case["c"].get("f32_net") and draw(st.sampled_from([False] * 7 + [True])):
            case["y"] = np.round(np.asarray(case["y"], float))
            case["y_int"] = True
        return case
    return s()


def _run(case):
    from .. import libx
    from ..libx import J
    import jax.numpy as jnp

    fails = []
    fam = _cond.fam(case)
    M, b, S = gen.cond_np(case["c"])
    Dx, Dy, No, Np, Rc = case["Dx"], case["Dy"], case["No"], case["Np"], case["Rc"]
    x, y = np.asarray(case["x"], float), np.asarray(case["y"], float)
    yJ = (lambda a: jnp.asarray(np.asarray(a).astype(np.int64))) if case.get("y_int") else J
    ok, cu = lib(fails, "construct_cond", libx.make_cond, case["c"])
    if not ok:
        return fails
    c, kw = cu
    tag = f"set_y[{fam}]"
    ok, f = lib(fails, tag, lambda: c.set_y(yJ(y), **kw))
    if not ok:
        return fails
    # reference [No, Np]
    want = np.zeros((No, Np))
    scale = np.zeros_like(want)
    for i in range(No):
        r = 0 if Rc == 1 else i
        v, s = _cond.ln_cond(M[r:r + 1], b[r:r + 1], S[r:r + 1], x, np.broadcast_to(y[i], (Np, Dy)))
        want[i], scale[i] = v[0], s[0]
    shift = 0.5 * (Dy - Dx) * LN2PI  # the library's constant uses Dx where Dy is meant (KF-SETY-NORM)
    kf_ok = fam in ("full", "diag", "nn") and Dx != Dy

    def judge(label, got, want_, scale_, k):
        """compare; a mismatch that is exactly k*shift is tagged as the known finding."""
        fl = []
        if check(fl, label, got, want_, scale_):
            return
        f0 = fl[0]
        g = np.asarray(got, float)
        if kf_ok and g.shape == np.shape(want_) and check([], label, g - k * shift, want_, scale_, tol=1e-9):
            f0["kf_sety"] = True
            f0["label"] = label + ":KF-SETY-NORM"
        fails.append(f0)

    ok, got = lib(fails, tag + ".evaluate_ln", lambda: f.evaluate_ln(J(x)))
    if ok:
        judge(tag + ":likelihood", got, want, scale, 1)
    # identity cond.set_y(y)(x) == cond(x)(y) through the library
    ok, d = lib(fails, tag + ":cond(x)", lambda: c(J(x), **kw))
    # (with a large common offset the density cond(x) is evaluated in information form at |y| >> sd: its natural scale is
    #  then |y|^2/sd^2, so this identity is only judged without the offset)
    if ok and Rc == 1 and not case.get("shift"):
        ok, ev = lib(fails, tag + ":cond(x)(y)", lambda: d.evaluate_ln(yJ(y)))  # [Np, No]
        if ok:
            check(fails, tag + ":cond(x)(y)_reference", np.asarray(ev).T, want, scale)
    # well-formed batch with one component per observation
    wf = True
    if int(f.R) != No:
        fails.append(Failure(tag + ":R", f"set_y factor has R={f.R}, expected one component per observation ({No})"))
        wf = False
    for nm, shp in [("Lambda", (No, Dx, Dx)), ("nu", (No, Dx)), ("ln_beta", (No,))]:
        a = np.asarray(getattr(f, nm))
        if a.shape != shp:
            fails.append(Failure(tag + ":shape_" + nm, f"set_y factor {nm} has shape {a.shape}, expected {shp}"))
            wf = False
    if not wf:
        return fails
    idx = case["idx"]
    ok, fs = lib(fails, tag + ".slice", lambda: f.slice(jnp.array(idx)))
    if ok:
        ok, got = lib(fails, tag + ".slice.evaluate_ln", lambda: fs.evaluate_ln(J(x)))
        if ok:
            judge(tag + ":slice", got, want[np.array(idx)], scale[np.array(idx)], 1)
    ok, fp = lib(fails, tag + ".product", lambda: f.product())
    if ok:
        ok, got = lib(fails, tag + ".product.evaluate_ln", lambda: fp.evaluate_ln(J(x)))
        if ok:
            judge(tag + ":product", got, want.sum(0, keepdims=True), scale.sum(0, keepdims=True), No)
    # multiply into a prior and normalise: numpy posterior
    mu0, Sig0 = np.asarray(case["prior"]["mu"], float)[0], np.asarray(case["prior"]["Sigma"], float)[0]
    L0 = oracle.inv_spd(Sig0[None])[0]
    Lp, nup = L0.copy(), L0 @ mu0
    for i in range(No):
        r = 0 if Rc == 1 else i
        Ly = oracle.inv_spd(S[r][None])[0]
        Lp = Lp + M[r].T @ Ly @ M[r]
        nup = nup + M[r].T @ Ly @ (y[i] - b[r])
    Lp = 0.5 * (Lp + Lp.T)
    if oracle.cond(Lp[None])[0] > 1e6:
        fails.append(Failure("excluded:ill_conditioned_derived", "posterior precision cond > 1e6"))
        return fails
    mup, Sp = oracle.mean_cov(Lp[None], nup[None])
    ok, prior = lib(fails, "construct_prior", libx.make_measure, "pdf", case["prior"])
    if ok and fp is not None:
        ok, post = lib(fails, tag + ":posterior", lambda: prior.multiply(fp, update_full=True).get_density())
        if ok:
            kap = max(1.0, oracle.cond(Lp[None])[0]) ** 0.5
            check(fails, tag + ":posterior_mu", np.asarray(post.mu), mup, (1 + np.abs(mup)) * kap)
            check(fails, tag + ":posterior_Sigma", np.asarray(post.Sigma), Sp, np.abs(Sp).max() * kap * np.ones_like(Sp))
    return fails


def _nontrivial(case):
    return case["Dx"] != case["Dy"] or case["No"] >= 2


def _labels(case):
    return [f"kind={case['kind']}", "paired" if case["Rc"] > 1 else "broadcast", "Dx!=Dy" if case["Dx"] != case["Dy"] else "Dx=Dy", f"No={case['No']}", f"shift={case.get('shift', 0.0):g}", "y_integer_dtype" if case.get("y_int") else "y_float"]


SUBS = [
    Sub("set_y", _pool, _strategy, _run, _nontrivial, _labels,
        examples={"quick": 150, "thorough": 500}, shards={"quick": 10, "thorough": 18}, rule="Dx != Dy or N_obs >= 2"),
]
