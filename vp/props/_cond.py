"""Shared generator / numpy references for the linear-Gaussian conditional properties C07-C10, C13."""
import numpy as np
from hypothesis import strategies as st

from .. import gen, oracle


def pool(tier):
    # (Dx, Dy, Rc, Rx, N): both log-det branches (Dx>Dy, Dx<=Dy) and the three batch combos
    base = [(1, 1, 1, 1, 1), (2, 2, 1, 1, 2), (3, 2, 1, 3, 1), (2, 3, 1, 3, 2), (3, 2, 2, 1, 2), (2, 3, 3, 1, 1),
            (2, 1, 1, 2, 3), (1, 2, 2, 1, 2), (3, 3, 1, 2, 1), (2, 2, 3, 1, 2), (4, 2, 1, 2, 1), (2, 4, 2, 1, 1),
            (5, 2, 1, 5, 1), (2, 5, 6, 1, 1),
            # sizes beyond 16 (dimension, batch, number of points): thresholds of sorting / chunking idioms
            (20, 18, 1, 2, 1), (17, 19, 2, 1, 2), (2, 2, 1, 20, 1), (2, 3, 18, 1, 20), (2, 2, 1, 1, 600)]
    if tier == "thorough":
        base += [(1, 3, 1, 4, 1), (4, 1, 3, 1, 2), (3, 1, 1, 1, 2), (1, 4, 1, 1, 1), (4, 3, 1, 3, 1), (3, 4, 1, 2, 2),
                 (4, 4, 2, 1, 1), (1, 1, 1, 4, 2), (1, 1, 4, 1, 1), (2, 2, 1, 4, 1), (3, 3, 3, 1, 2), (4, 4, 1, 2, 1),
                 (2, 3, 1, 1, 3), (3, 2, 1, 1, 1), (5, 2, 1, 2, 1), (2, 5, 1, 2, 1)]
    return base


def strategy(shapes, kinds=None, extra=None, far_mean=False, sharp=False):
    """far_mean: in a quarter of the cases the mean of p(x) lies 1e4 / 1e6 standard deviations away from the origin (time
    stamps, absolute positions).  Covariances, precisions and log-determinants of the results do not depend on the mean, so
    they are still judged at their own scale; the property modules skip the log-density comparisons there (information-form
    evaluation legitimately loses |mu|^2/sigma^2 * eps)."""
    kinds = kinds or gen.COND_KINDS

    @st.composite
    def s(draw):
        Dx, Dy, Rc, Rx, N = draw(st.sampled_from(shapes))
        kind = draw(st.sampled_from(kinds))
        if kind in ("identity", "identity_diag"):
            Dy = Dx
        kappa = draw(st.sampled_from([10.0, 100.0]))
        case = {"Dx": Dx, "Dy": Dy, "Rc": Rc, "Rx": Rx, "N": N, "kind": kind,
                "c": draw(gen.cond_params(kind, Rc, Dx, Dy, kappa)),
                "px": draw(gen.measure_params("pdf", Rx, Dx, kappa, extreme=True)),
                "x": draw(gen.arr((N, Dx), -2.5, 2.5)), "y": draw(gen.arr((N, Dy), -2.5, 2.5))}
        # unit consistency: when p(x) lives on an extreme overall scale (see gen.measure_params), the conditional's noise,
        # offset and the evaluation points are expressed in the same units, so derived matrices stay well conditioned
        sx = float(np.exp(np.mean(np.log(np.linalg.eigvalsh(np.asarray(case["px"]["Sigma"], float)[0])))))
        if sx > 1e5 or sx < 1e-5:
            g = 10.0 ** np.round(np.log10(sx))
            case["c"]["Sigma"] = np.asarray(case["c"]["Sigma"], float) * g
            if "b" in case["c"]:
                case["c"]["b"] = np.asarray(case["c"]["b"], float) * g ** 0.5
            if kind == "nn":
                case["c"]["W2"] = np.asarray(case["c"]["W2"], float).copy()
                case["c"]["W2"][:, Dy * Dx:] *= g ** 0.5
                case["c"]["b2"] = np.asarray(case["c"]["b2"], float).copy()
                case["c"]["b2"][Dy * Dx:] *= g ** 0.5
            case["x"] = np.asarray(case["x"], float) * g ** 0.5
            case["y"] = np.asarray(case["y"], float) * g ** 0.5
            case["unit_scale"] = g
        if sharp and kind != "nn" and draw(st.sampled_from([False] * 5 + [True])):
            # sharp, complete observation of a vague prior in the same units: Dy = Dx, a well-conditioned square M and a noise
            # variance 1e-10 / 1e-14 of the prior's.  Every input matrix keeps its condition number; the posterior covariance is
            # of the size of the noise, and covariance-form ("gain") updates cancel there while the information form does not.
            Dy = case["Dy"] = Dx
            ratio = draw(st.sampled_from([1e-10, 1e-14]))
            c = draw(gen.cond_params(kind, Rc, Dx, Dx, 10.0))
            for k_ in ("past_Sigma0", "M_int_dtype", "_structure"):
                c.pop(k_, None)
            if "M" in c:
                c["M"] = draw(gen.spd(Rc, Dx, kappa=10.0, lam_lo=0.5, lam_hi=1.0))
            c["Sigma"] = np.asarray(c["Sigma"], float) * ratio * sx
            if "b" in c and case.get("unit_scale"):
                c["b"] = np.asarray(c["b"], float) * case["unit_scale"] ** 0.5
            case["c"] = c
            case["y"] = draw(gen.arr((N, Dx), -2.5, 2.5)) * case.get("unit_scale", 1.0) ** 0.5
            case["sharp"] = ratio
        if far_mean and not case.get("sharp") and draw(st.sampled_from([False, False, False, True])):
            off = draw(st.sampled_from([1e4, 1e6])) * float(np.sqrt(sx))
            d = draw(gen.arr((Rx, Dx), 0.5, 1.5)) * np.where(draw(gen.arr((Rx, Dx), -1, 1)) < 0, -1.0, 1.0)
            case["px"]["mu"] = np.asarray(case["px"]["mu"], float) + off * d
            case["far_mean"] = off
        if draw(st.sampled_from([False] * 5 + [True])):
            # class mixture: p(x) is exactly diagonal and is an instance of the DIAGONAL density class (any conditional class)
            Sd = np.asarray(case["px"]["Sigma"], float)
            case["px"] = dict(case["px"], Sigma=Sd * np.eye(Dx)[None], as_diag_class=True)
        if not case.get("far_mean") and not case.get("unit_scale") and not case["c"].get("f32_net") and draw(st.sampled_from([False] * 11 + [True])):
            # dtype regime: the mean of p(x) is integer-valued and passed as an INTEGER array (float covariance); not combined
            # with a single-precision network (JAX promotes int64 with float32 to float32: the user's own precision choice)
            case["px"] = dict(case["px"], mu=np.round(np.asarray(case["px"]["mu"], float)), mu_int_dtype=True)
        if kind != "nn" and not case.get("sharp") and draw(st.sampled_from([False] * 7 + [True])):
            # coincidence between arguments: the first observation lies exactly on the predicted mean of the first point
            Mn, bn, _ = gen.cond_np(case["c"])
            case["y"] = np.array(case["y"], float)
            case["y"][0] = Mn[0] @ np.asarray(case["x"], float)[0] + bn[0]
            case["y_on_mean"] = True
        if extra:
            extra(draw, case)
        return case

    return s()


def labels(case):
    combo = "(1,1)" if case["Rc"] == 1 and case["Rx"] == 1 else ("(1,n)" if case["Rc"] == 1 else "(n,1)")
    reg = "Dx>Dy" if case["Dx"] > case["Dy"] else ("Dx=Dy" if case["Dx"] == case["Dy"] else "Dx<Dy")
    return [f"kind={case['kind']}", f"combo={combo}", reg, f"ctor={case['c'].get('ctor')}", f"unit_scale={case.get('unit_scale', 1.0):g}"] + (["far_mean"] if case.get("far_mean") else []) + (["sharp_observation"] if case.get("sharp") else []) + (["y_on_predicted_mean"] if case.get("y_on_mean") else []) + (["px_mean_integer_dtype"] if case["px"].get("mu_int_dtype") else []) + (["px_class=diag"] if case["px"].get("as_diag_class") else ["px_class=full"])


def nontrivial(case):
    return case["Rc"] * case["Rx"] >= 2 or (case["Dx"] >= 2 and case["Dy"] >= 2)


def fam(case):
    return "identity" if case["kind"].startswith("identity") else case["kind"]


def np_inputs(case):
    M, b, S = gen.cond_np(case["c"])
    mu = np.asarray(case["px"]["mu"], float)
    Sig = np.asarray(case["px"]["Sigma"], float)
    return M, b, S, mu, Sig


def ln_cond(M, b, S, x, y):
    """ln N(y_n; M_r x_n + b_r, S_r) -> [R,N] (+ scale)."""
    R = M.shape[0]
    vals, scs = [], []
    for r in range(R):
        m = x @ M[r].T + b[r]
        v, s = oracle.mvn_ln_elem(y, m, np.broadcast_to(S[r], (x.shape[0],) + S[r].shape))
        vals.append(v)
        scs.append(s)
    return np.stack(vals), np.stack(scs)


def ln_cond_all(M, b, S, x, y):
    """ln N(y_i; M_r x_n + b_r, S_r) -> [R, I, N]."""
    R = M.shape[0]
    out, sc = [], []
    for r in range(R):
        m = x @ M[r].T + b[r]  # [N,Dy]
        v, s = oracle.mvn_ln(y, m, np.broadcast_to(S[r], (x.shape[0],) + S[r].shape))  # [N(points as comps), I]
        out.append(v.T)
        sc.append(s.T)
    return np.stack(out), np.stack(sc)


def joint_info(M, b, S, mu, Sig):
    """Information form (Lam, nu, c) of ln p(y|x) + ln p(x) over z=(x,y), assembled block-wise from the
    definitions for one (conditional, prior) pair."""
    Dx, Dy = mu.shape[0], b.shape[0]
    Ly = oracle.inv_spd(S[None])[0]
    Lx = oracle.inv_spd(Sig[None])[0]
    Lam = np.zeros((Dx + Dy, Dx + Dy))
    Lam[:Dx, :Dx] = Lx + M.T @ Ly @ M
    Lam[:Dx, Dx:] = -M.T @ Ly
    Lam[Dx:, :Dx] = -Ly @ M
    Lam[Dx:, Dx:] = Ly
    nu = np.concatenate([Lx @ mu - M.T @ Ly @ b, Ly @ b])
    ldy = oracle.slogdet_spd(S[None])[0][0]
    ldx = oracle.slogdet_spd(Sig[None])[0][0]
    c = -0.5 * (b @ Ly @ b + mu @ Lx @ mu + ldy + ldx + (Dx + Dy) * oracle.LN2PI)
    return Lam, nu, c


def joint_moments(M, b, S, mu, Sig):
    """Moment form of the joint over (x,y)."""
    my = M @ mu + b
    C = M @ Sig
    Sy = S + C @ M.T
    top = np.concatenate([Sig, C.T], 1)
    bot = np.concatenate([C, Sy], 1)
    return np.concatenate([mu, my]), np.concatenate([top, bot], 0)


def pairs(case):
    """(r, rc, rx) for the documented layout rc*Rx+rx."""
    out = []
    for rc in range(case["Rc"]):
        for rx in range(case["Rx"]):
            out.append((rc * case["Rx"] + rx, rc, rx))
    return out
