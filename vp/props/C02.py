"""C02 - reported total mass equals the true integral; densities integrate to one."""
import numpy as np
from hypothesis import strategies as st

from .. import gen, oracle
from ..compare import Failure, check, lib
from ..sub import Sub

RULE = ("Oracle: quadratic fitted to evaluate_ln outputs only, integrated in closed form by numpy (never reads Sigma/lnZ/ln_beta). "
        "Non-trivial: measures with D>=2 (non-diagonal precision, nu!=0, ln_beta!=0 by generation); densities obtained by a "
        "non-constructor route or with R>=2.")
BOUNDS = {"D": "1..5; high_dim sub-check 20..160", "R": "1..4", "history": "<=3 steps before the mass query", "Dx,Dy": "1..4"}
ASSUMPTIONS = [
    "evaluate_ln values at 1+2D+D(D-1)/2 probe points determine the function (verified at 3 further points per case)",
    "closed-form Gaussian integral of the fitted quadratic in numpy float64 (Cholesky) is the reference integral",
    "cases whose derived precision has condition number > 1e6 are counted under excluded, not judged",
]


# ------------------------------------------------------------------------------------------ measures
def _pool_mass(tier):
    base = [(1, 1), (2, 2), (3, 3), (2, 1), (4, 2), (5, 1), (1, 4), (3, 2)]
    if tier == "thorough":
        base += [(2, 4), (4, 3), (5, 2), (3, 1), (1, 2), (4, 1), (2, 3), (5, 3)]
    return base


_STEPS = ["multiply", "hadamard", "slice", "query"]


@st.composite
def _steps(draw, R, D, kappa):
    n = draw(st.integers(0, 3))
    out = []
    for _ in range(n):
        k = draw(st.sampled_from(_STEPS))
        if k == "multiply":
            fk = draw(st.sampled_from(gen.FACTOR_KINDS))
            R2 = draw(st.integers(1, 2))
            if R * R2 > 8:
                R2 = 1
            out.append({"op": "multiply", "fkind": fk, "f": draw(gen.factor_params(fk, R2, D, kappa)), "update_full": draw(st.booleans())})
            R = R * R2
        elif k == "hadamard":
            fk = draw(st.sampled_from(gen.FACTOR_KINDS))
            R2 = draw(st.sampled_from([1, R]))
            out.append({"op": "hadamard", "fkind": fk, "f": draw(gen.factor_params(fk, R2, D, kappa)), "update_full": draw(st.booleans())})
        elif k == "slice":
            idx = draw(gen.index_array(R, 1, 3))
            out.append({"op": "slice", "idx": idx})
            R = len(idx)
        else:
            out.append({"op": "query", "which": draw(st.sampled_from(["log_integral_light", "integrate_x", "evaluate", "get_density", "integrate_xx"]))})
    return out


def _strategy_mass(shapes):
    @st.composite
    def s(draw):
        D, R = draw(st.sampled_from(shapes))
        kind = draw(st.sampled_from(["measure", "diag_measure"]))
        kappa = draw(st.sampled_from([10.0, 100.0]))
        return {"D": D, "R": R, "kind": kind, "cache": draw(st.sampled_from(gen.CACHES)),
                "m": draw(gen.measure_params(kind, R, D, kappa)), "steps": draw(_steps(R, D, kappa)),
                "x": draw(gen.arr((2, D), -2, 2))}
    return s()


def _apply_steps(fails, m, steps):
    from .. import libx
    from ..libx import J
    import jax.numpy as jnp

    for i, stp in enumerate(steps):
        op = stp["op"]
        if op in ("multiply", "hadamard"):
            ok, f = lib(fails, "construct_factor", libx.make_factor, stp["fkind"], stp["f"])
            if not ok:
                return None
            ok, m = lib(fails, f"step.{op}", lambda: getattr(m, op)(f, update_full=stp["update_full"]))
        elif op == "slice":
            ok, m = lib(fails, "step.slice", lambda: m.slice(jnp.array(stp["idx"])))
        else:
            w = stp["which"]
            fn = {"log_integral_light": lambda: m.log_integral_light(), "integrate_x": lambda: m.integrate("x"),
                  "evaluate": lambda: m.evaluate(J(np.zeros((1, m.D)))), "get_density": lambda: m.get_density(),
                  "integrate_xx": lambda: m.integrate("xx'")}[w]
            ok, _ = lib(fails, f"step.query.{w}", fn)
        if not ok:
            return None
    return m


def _run_mass(case):
    from .. import libx, dens
    from ..libx import J

    fails = []
    D = case["D"]
    ok, m = lib(fails, "construct_measure", libx.make_measure, case["kind"], case["m"], case["cache"])
    if not ok:
        return fails
    m = _apply_steps(fails, m, case["steps"])
    if m is None:
        return fails
    res = dens.check_measure_mass(fails, "measure", m, D)
    if res is None:
        return fails
    ft, lnm, sc = res
    # evaluation points near the mass of the first component (in units of the probe step)
    x = np.asarray(case["x"], float) * dens._step(m) + ft.centers[0][None]
    lnu, su = ft.evaluate(x)
    want = lnu - lnm[:, None]
    scale = su + sc[:, None]
    # get_density(): exactly u(x) / integral
    ok, d = lib(fails, "get_density", lambda: m.get_density())
    if ok:
        ok2, got = lib(fails, "get_density.evaluate_ln", lambda: d.evaluate_ln(J(x)))
        if ok2:
            check(fails, "get_density:not_u_over_mass", got, want, scale)
        dens.check_density(fails, "get_density", d, D)
    # normalize() in place
    ok, _ = lib(fails, "normalize", lambda: m.normalize())
    if ok:
        ok2, got = lib(fails, "normalize.evaluate_ln", lambda: m.evaluate_ln(J(x)))
        if ok2:
            check(fails, "normalize:not_u_over_mass", got, want, scale)
        ok2, got = lib(fails, "normalize.log_integral", lambda: m.log_integral())
        if ok2:
            check(fails, "normalize:mass_not_one", got, np.zeros_like(lnm), sc)
    return fails


def _nontrivial_mass(case):
    return case["D"] >= 2


def _labels_mass(case):
    return [f"kind={case['kind']}", f"cache={case['cache']}", f"nsteps={len(case['steps'])}"] + [f"step={s['op']}" for s in case["steps"]]


# ------------------------------------------------------------------------------------------ density routes
def _pool_ctor(tier):
    base = [(1, 1, 1), (2, 2, 2), (3, 3, 1), (4, 1, 2), (2, 4, 1), (5, 2, 1)]
    if tier == "thorough":
        base += [(3, 1, 3), (4, 3, 2), (2, 3, 3), (5, 1, 2), (1, 3, 2), (3, 4, 1)]
    return base


_ROUTES = ["ctor_S", "ctor_SL", "ctor_SLd", "slice", "marginal", "linear_sum", "condition_on_x", "get_density_of_measure"]


def _strategy_ctor(shapes):
    @st.composite
    def s(draw):
        D, R, N = draw(st.sampled_from(shapes))
        diag = draw(st.booleans())
        route = draw(st.sampled_from(_ROUTES))
        kappa = draw(st.sampled_from([10.0, 100.0]))
        case = {"D": D, "R": R, "N": N, "diag": diag, "route": route,
                "p": draw(gen.measure_params("diag_pdf" if diag else "pdf", R, D, kappa))}
        if route == "slice":
            case["idx"] = draw(gen.index_array(R, 1, 3))
        elif route == "marginal":
            case["dims"] = draw(gen.perm_prefix(D))
        elif route == "linear_sum":
            K = draw(st.integers(1, D))
            case["W"] = draw(gen.spd(R, D, kappa=20.0, lam_lo=0.5, lam_hi=2.0))[:, :K, :]
            case["b"] = draw(st.one_of(st.none(), gen.arr((R, K))))
        elif route == "condition_on_x":
            if D < 2:
                case["route"] = "ctor_S"
            else:
                case["dims"] = draw(gen.perm_prefix(D, 1, D - 1))
                case["xc"] = draw(gen.arr((N, len(case["dims"])), -2, 2))
        return case
    return s()


def _run_ctor(case):
    from .. import libx, dens
    from ..libx import J
    import jax.numpy as jnp
    from gaussian_toolbox import pdf

    fails = []
    D, R = case["D"], case["R"]
    cls = pdf.GaussianDiagPDF if case["diag"] else pdf.GaussianPDF
    Sig, mu = np.asarray(case["p"]["Sigma"], float), np.asarray(case["p"]["mu"], float)
    route = case["route"]
    kw = {"Sigma": J(Sig), "mu": J(mu)}
    if route in ("ctor_SL", "ctor_SLd"):
        kw["Lambda"] = J(oracle.inv_spd(Sig))
    if route == "ctor_SLd":
        kw["ln_det_Sigma"] = J(oracle.slogdet_spd(Sig)[0])
    ok, p = lib(fails, "construct_pdf", lambda: cls(**kw))
    if not ok:
        return fails
    Dd = D
    if route.startswith("ctor"):
        d = p
    elif route == "slice":
        ok, d = lib(fails, "slice", lambda: p.slice(jnp.array(case["idx"])))
    elif route == "marginal":
        ok, d = lib(fails, "get_marginal", lambda: p.get_marginal(jnp.array(case["dims"])))
        Dd = len(case["dims"])
    elif route == "linear_sum":
        W = np.asarray(case["W"], float)
        b = None if case["b"] is None else J(case["b"])
        ok, d = lib(fails, "linear_sum", lambda: p.get_density_of_linear_sum(J(W), b))
        Dd = W.shape[1]
    elif route == "condition_on_x":
        dims = case["dims"]
        ok, c = lib(fails, "condition_on", lambda: p.condition_on(jnp.array(dims)))
        if ok:
            ok, d = lib(fails, "condition_on_x", lambda: c(J(case["xc"])))
        Dd = D - len(dims)
    elif route == "get_density_of_measure":
        ok, d = lib(fails, "get_density", lambda: p.get_density())
    if not ok:
        return fails
    dens.check_density(fails, route, d, Dd)
    return fails


def _nontrivial_ctor(case):
    return case["D"] >= 2 and (case["R"] >= 2 or not case["route"].startswith("ctor"))


def _labels_ctor(case):
    return [f"route={case['route']}", f"diag={case['diag']}"]


# ------------------------------------------------------------------------------------------ transformations
def _pool_tr(tier):
    # (Dx, Dy, Rc, Rx, N)
    base = [(1, 1, 1, 1, 1), (2, 2, 1, 1, 2), (3, 2, 2, 1, 1), (2, 3, 1, 3, 1), (2, 2, 3, 1, 2), (3, 3, 1, 2, 1), (1, 2, 1, 2, 2), (3, 1, 2, 1, 1)]
    if tier == "thorough":
        base += [(4, 2, 1, 2, 1), (2, 4, 3, 1, 1), (3, 3, 2, 1, 2), (1, 1, 1, 4, 1), (4, 4, 1, 1, 1), (2, 1, 1, 3, 2), (1, 3, 2, 1, 1), (3, 2, 1, 1, 3)]
    return base


_TROUTES = ["cond_x", "joint", "marginal", "conditional_y"]


def _strategy_tr(shapes):
    @st.composite
    def s(draw):
        Dx, Dy, Rc, Rx, N = draw(st.sampled_from(shapes))
        kind = draw(st.sampled_from(gen.COND_KINDS))
        if kind in ("identity", "identity_diag"):
            Dy = Dx
        kappa = draw(st.sampled_from([10.0, 100.0]))
        route = draw(st.sampled_from(_TROUTES))
        return {"Dx": Dx, "Dy": Dy, "Rc": Rc, "Rx": Rx, "N": N, "kind": kind, "route": route,
                "c": draw(gen.cond_params(kind, Rc, Dx, Dy, kappa)),
                "px": draw(gen.measure_params("pdf", Rx, Dx, kappa)),
                "x": draw(gen.arr((N, Dx), -2, 2)), "y": draw(gen.arr((N, Dy), -2, 2))}
    return s()


def _run_tr(case):
    from .. import libx, dens
    from ..libx import J

    fails = []
    Dx, Dy = case["Dx"], case["Dy"]
    ok, cu = lib(fails, "construct_cond", libx.make_cond, case["c"])
    if not ok:
        return fails
    c, kw = cu
    ok, px = lib(fails, "construct_px", libx.make_measure, "pdf", case["px"])
    if not ok:
        return fails
    route = case["route"]
    fam = "identity" if case["kind"].startswith("identity") else "general"
    tag = f"{route}[{fam}]"
    if route == "cond_x":
        ok, d = lib(fails, tag, lambda: c(J(case["x"]), **kw))
        Dd = Dy
    elif route == "joint":
        ok, d = lib(fails, tag, lambda: c.affine_joint_transformation(px, **kw))
        Dd = Dx + Dy
    elif route == "marginal":
        ok, d = lib(fails, tag, lambda: c.affine_marginal_transformation(px, **kw))
        Dd = Dy
    else:
        ok, cc = lib(fails, tag, lambda: c.affine_conditional_transformation(px, **kw))
        if ok:
            ok, d = lib(fails, tag + "(y)", lambda: cc(J(case["y"])))
        Dd = Dx
    if not ok:
        return fails
    dens.check_density(fails, tag, d, Dd)
    return fails


def _nontrivial_tr(case):
    return case["Rc"] * case["Rx"] >= 2 or (case["Dx"] >= 2 and case["Dy"] >= 2)


def _labels_tr(case):
    return [f"kind={case['kind']}", f"route={case['route']}", f"combo=({min(case['Rc'],2)},{min(case['Rx'],2)})",
            "Dx>Dy" if case["Dx"] > case["Dy"] else "Dx<=Dy"]


# ------------------------------------------------------------------------------------------ approximate conditionals
def _pool_ap(tier):
    # (Dx, Dy, Dk, Da_extra)
    base = [(1, 1, 1, 0), (2, 2, 2, 0), (1, 2, 2, 1), (2, 1, 1, 0), (3, 2, 1, 0), (2, 2, 1, 1)]
    if tier == "thorough":
        base += [(3, 1, 1, 1), (1, 3, 2, 0), (2, 3, 3, 0), (3, 3, 2, 0)]
    return base


def _strategy_ap(shapes):
    @st.composite
    def s(draw):
        Dx, Dy, Dk, dA = draw(st.sampled_from(shapes))
        akind = draw(st.sampled_from(gen.FEATURE_KINDS + gen.HET_KINDS))
        route = draw(st.sampled_from(_TROUTES))
        het = akind in gen.HET_KINDS
        Da = max(Dy, Dk) + dA if het else 0
        if het:
            ap = draw(gen.het_params(akind, Dx, Dy, max(Da, Dy, Dk), Dk, wscale=draw(st.sampled_from([0.3, 1.0]))))
        else:
            ap = draw(gen.feature_params(akind, Dx, Dy, Dk))
        return {"Dx": Dx, "Dy": Dy, "Dk": Dk, "akind": akind, "route": route, "ap": ap,
                "px": {"Sigma": draw(gen.spd(1, Dx, kappa=6.0, lam_lo=0.2, lam_hi=0.5)), "mu": draw(gen.arr((1, Dx), -1.5, 1.5))},
                "x": draw(gen.arr((2, Dx), -2, 2)), "y": draw(gen.arr((2, Dy), -2, 2))}
    return s()


def _run_ap(case):
    from .. import libx, dens
    from ..libx import J

    fails = []
    het = case["akind"] in gen.HET_KINDS
    Dx, Dy = case["Dx"], case["Dy"]
    ok, c = lib(fails, "construct_approx", (libx.make_het if het else libx.make_feature), case["ap"])
    ok2, px = lib(fails, "construct_px", libx.make_measure, "pdf", case["px"])
    if not (ok and ok2):
        return fails
    route = case["route"]
    tag = f"{route}[{'het' if het else case['akind']}]"
    if route == "cond_x":
        ok, d = lib(fails, tag, lambda: c(J(case["x"])))
        Dd = Dy
    elif route == "joint":
        ok, d = lib(fails, tag, lambda: c.affine_joint_transformation(px))
        Dd = Dx + Dy
    elif route == "marginal":
        ok, d = lib(fails, tag, lambda: c.affine_marginal_transformation(px))
        Dd = Dy
    else:
        ok, cc = lib(fails, tag, lambda: c.affine_conditional_transformation(px))
        if ok:
            ok, d = lib(fails, tag + "(y)", lambda: cc(J(case["y"])))
        Dd = Dx
    if not ok:
        return fails
    f2 = []
    dens.check_density(f2, tag, d, Dd)
    if het and route == "cond_x" and case["ap"]["Da"] > case["ap"]["Dy"]:
        for f in f2:
            f["kf_het_da"] = True  # listed finding: p(y|x) of a heteroscedastic conditional with Da > Dy is not normalised
    fails.extend(f2)
    return fails


# ------------------------------------------------------------------------------------------ high dimension
# D = 20..64 (diagonal classes up to 160) with overall scales down to standard deviations of 1e+-8: the determinant of the
# covariance leaves the float64 range although its logarithm is an ordinary number.  The fitted-quadratic oracle is not used
# here (1+2D+D(D-1)/2 probe points, and it loses accuracy on extreme scales): the reference is the numpy log-density / log-mass
# computed from the defining inputs, compared with what the object EVALUATES to at points within a few standard deviations
# of its mean, and with the reported log-integral.
def _pool_hd(tier):
    base = [(20, 1), (32, 2), (48, 1), (160, 1), (2, 1100), (1, 1025)]  # the last two: batches beyond 1024
    if tier == "thorough":
        base += [(24, 2), (64, 1), (40, 3), (96, 1), (3, 1500), (2, 2100)]
    return base


_HD_ROUTES = ["ctor_S", "ctor_SL", "ctor_SLd", "slice", "marginal", "get_density", "normalize", "measure"]


def _strategy_hd(shapes):
    @st.composite
    def s(draw):
        D, R = draw(st.sampled_from(shapes))
        diag = True if D > 64 else draw(st.booleans())
        route = draw(st.sampled_from(_HD_ROUTES))
        base = "measure" if route in ("get_density", "normalize", "measure") else "pdf"
        kind = ("diag_" if diag else "") + base
        case = {"D": D, "R": R, "diag": diag, "route": route, "kind": kind, "cache": draw(st.sampled_from(gen.CACHES)),
                "m": draw(gen.measure_params(kind, R, D, draw(st.sampled_from([10.0, 100.0])), extreme="wide")),
                "z": draw(gen.arr((2, D), -1.5, 1.5))}
        if base == "measure":
            case["m"]["ln_beta"] = np.asarray(case["m"]["ln_beta"], float)
        if route == "slice":
            case["idx"] = draw(gen.index_array(R, 1, 3)) + ([R - 1, R // 2] if R > 16 else [])
        if route == "marginal":
            k = draw(st.integers(max(1, D - 6), D))
            case["dims"] = list(draw(st.permutations(list(range(D))))[:k])
        return case
    return s()


def _run_hd(case):
    from .. import libx
    from ..libx import J
    import jax.numpy as jnp
    from gaussian_toolbox import pdf

    fails = []
    D, R, route, kind = case["D"], case["R"], case["route"], case["kind"]
    z = np.asarray(case["z"], float)
    if kind.endswith("pdf"):
        Sig, mu = np.asarray(case["m"]["Sigma"], float), np.asarray(case["m"]["mu"], float)
        cls = pdf.GaussianDiagPDF if case["diag"] else pdf.GaussianPDF
        kw = {"Sigma": J(Sig), "mu": J(mu)}
        if route in ("ctor_SL", "ctor_SLd"):
            kw["Lambda"] = J(oracle.inv_spd(Sig))
        if route == "ctor_SLd":
            kw["ln_det_Sigma"] = J(oracle.slogdet_spd(Sig)[0])
        ok, p = lib(fails, "construct_pdf", lambda: cls(**kw))
        if not ok:
            return fails
        libx.warm(p, case["cache"])
        d, dims = p, list(range(D))
        if route == "slice":
            idx = np.array(case["idx"])
            ok, d = lib(fails, "slice", lambda: p.slice(jnp.array(case["idx"])))
            Sig, mu = Sig[idx], mu[idx]
        elif route == "marginal":
            dims = case["dims"]
            ok, d = lib(fails, "get_marginal", lambda: p.get_marginal(libx.IDX(dims)))
            Sig, mu = Sig[:, dims][:, :, dims], mu[:, dims]
        if not ok:
            return fails
        lnm = None
    else:
        Lam, nu, lb = libx.measure_params_np(kind, case["m"])
        ok, m = lib(fails, "construct_measure", libx.make_measure, kind, case["m"], case["cache"])
        if not ok:
            return fails
        mu, Sig = oracle.mean_cov(Lam, nu)
        lnm, lnm_s = oracle.ln_mass(Lam, nu, lb)
        for nm in ("log_integral_light", "log_integral"):
            ok, got = lib(fails, nm, lambda: getattr(m, nm)())
            if ok:
                check(fails, f"high_dim[{route}]:{nm}", got, lnm, lnm_s)
        if route == "measure":
            # the measure itself: u(x) at points near the mean
            x = mu[0] + z * np.sqrt(np.einsum("ii->i", Sig[0]))
            want, sc = oracle.ln_factor(Lam, nu, lb, x)
            ok, got = lib(fails, "measure.evaluate_ln", lambda: m.evaluate_ln(J(x)))
            if ok:
                check(fails, "high_dim[measure]:evaluate_ln", got, want, sc)
            return fails
        if route == "get_density":
            ok, d = lib(fails, "get_density", lambda: m.get_density())
        else:
            ok, _ = lib(fails, "normalize", lambda: m.normalize())
            d = m
        if not ok:
            return fails
    tag = f"high_dim[{route}]"
    x = mu[0] + z[:, : mu.shape[1]] * np.sqrt(np.einsum("ii->i", Sig[0]))
    want, sc = oracle.mvn_ln(x, mu, Sig)
    if lnm is not None:
        sc = sc + lnm_s[:, None]
    ok, got = lib(fails, tag + ".evaluate_ln", lambda: d.evaluate_ln(J(x)))
    if ok:
        check(fails, tag + ":log_density", got, want, sc * np.maximum(1.0, oracle.cond(Sig))[:, None] ** 0.5)
    ld, lds = oracle.slogdet_spd(Sig)
    ok, got = lib(fails, tag + ".log_integral", lambda: d.log_integral())
    if ok:
        check(fails, tag + ":log_mass_not_zero", got, np.zeros(len(ld)), lds + (0 if lnm is None else lnm_s))
    if getattr(d, "ln_det_Sigma", None) is not None:
        check(fails, tag + ":ln_det_Sigma", np.asarray(d.ln_det_Sigma), ld, lds)
    return fails


SUBS = [
    Sub("measure_mass", _pool_mass, _strategy_mass, _run_mass, _nontrivial_mass, _labels_mass,
        examples={"quick": 70, "thorough": 500}, shards={"quick": 8, "thorough": 16}, rule="D>=2"),
    Sub("density_routes", _pool_ctor, _strategy_ctor, _run_ctor, _nontrivial_ctor, _labels_ctor,
        examples={"quick": 100, "thorough": 600}, shards={"quick": 6, "thorough": 12}, rule="D>=2 and (R>=2 or non-constructor route)"),
    Sub("transformations", _pool_tr, _strategy_tr, _run_tr, _nontrivial_tr, _labels_tr,
        examples={"quick": 80, "thorough": 500}, shards={"quick": 8, "thorough": 16}, rule="Rc*Rx>=2 or (Dx>=2 and Dy>=2)"),
    Sub("approx_routes", _pool_ap, _strategy_ap, _run_ap, lambda c: c["Dx"] + c["Dy"] >= 3,
        lambda c: [f"akind={c['akind']}", f"route={c['route']}"],
        examples={"quick": 50, "thorough": 300}, shards={"quick": 6, "thorough": 10}, rule="Dx+Dy>=3"),
    Sub("high_dim", _pool_hd, _strategy_hd, _run_hd, lambda c: True,
        lambda c: [f"route={c['route']}", f"diag={c['diag']}", f"D={c['D']}"],
        examples={"quick": 40, "thorough": 200}, shards={"quick": 4, "thorough": 8}, rule="all (D >= 20 or R > 1024)"),
]
