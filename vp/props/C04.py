"""C04 - cached covariance, log-determinants, mean and log-partition always match (Lambda, nu);
no result depends on which read-only queries were made on its operands beforehand.

Histories are generated model-based: the strategy tracks (is_pdf, R, D) of every pooled object so that every
drawn step is applicable; the whole op list is one Hypothesis value (shrinks as one), and is the replay unit.
"""
import numpy as np
from hypothesis import strategies as st

from .. import gen, oracle
from ..compare import Failure, check, lib
from ..sub import Sub

RULE = ("History = initial measure/density/conditional pool + <= L producing steps (multiply, hadamard, product, slice, normalize, "
        "get_density, get_marginal, condition_on(x), update, linear_sum, joint/marginal/conditional transformation, cond(x), "
        "update_Sigma, moment-matched transformations, heteroscedastic cond(x)) interleaved with read-only warmers. "
        "Non-trivial: >= 2 producing steps and >= 1 rank-one/linear/constant product applied to an operand with cached covariance.")
BOUNDS = {"history length": "<=5 quick, <=8 thorough", "D": "1..4", "R": "<=8 in the pool"}
ASSUMPTIONS = [
    "invariant reference: numpy Cholesky inverse / log-determinant of the object's own Lambda, mu = Lambda^-1 nu, Gaussian lnZ",
    "query independence: each producing step is re-executed on cold clones rebuilt through the public constructors from the primary "
    "parameters (Lambda,nu,ln_beta / Sigma,mu / M,b,Sigma) and every attribute present on both results must agree",
    "objects whose precision has condition number > 1e6 are counted as excluded",
]
MAXR = 8
FK = gen.FACTOR_KINDS


def _pool(tier):
    L = 5 if tier == "quick" else 8
    base = [(1, 1, L), (2, 2, L), (3, 1, L), (2, 3, L), (3, 2, L), (4, 1, L), (2, 1, L), (4, 2, L),
            # sizes beyond 16 / 1024 (blocked or chunked algorithms, sorting idioms): batch 20, 1100, dimension 18
            (2, 20, L), (18, 1, L), (2, 1100, 3)]
    if tier == "thorough":
        base += [(5, 2, L), (6, 1, L), (3, 4, L), (2, 5, L), (1, 2100, 3), (3, 1500, 3)]
    return base


@st.composite
def _history(draw, D0, R0, L):
    kappa = draw(st.sampled_from([10.0, 50.0]))
    objs = []   # model: dict(pdf=bool, R, D)
    conds = []  # model: dict(kind, R, Dx, Dy)
    init = []
    k0 = draw(st.sampled_from(gen.MEASURE_KINDS))
    init.append({"what": "measure", "kind": k0, "cache": draw(st.sampled_from(gen.CACHES)), "p": draw(gen.measure_params(k0, R0, D0, kappa))})
    objs.append({"pdf": k0.endswith("pdf"), "diag": k0.startswith("diag"), "R": R0, "D": D0})
    k1 = draw(st.sampled_from(["pdf", "diag_pdf"]))
    R1 = draw(st.sampled_from([1, R0]))
    init.append({"what": "measure", "kind": k1, "cache": "cold", "p": draw(gen.measure_params(k1, R1, D0, kappa))})
    objs.append({"pdf": True, "diag": k1.startswith("diag"), "R": R1, "D": D0})
    ck = draw(st.sampled_from(["full", "diag", "identity", "identity_diag"]))
    Dy = D0 if ck.startswith("identity") else draw(st.integers(1, 3))
    Rc = draw(st.sampled_from([1, 1, 2]))
    init.append({"what": "cond", "p": draw(gen.cond_params(ck, Rc, D0, Dy, kappa))})
    conds.append({"kind": ck, "R": Rc, "Dx": D0, "Dy": Dy})
    steps = []
    last_f = None
    n = draw(st.integers(1, L))
    OPS = ["multiply", "multiply", "hadamard", "product", "replace", "slice", "normalize", "get_density", "get_marginal", "condition_on",
           "update", "linear_sum", "joint", "marginal_t", "conditional_t", "cond_x", "update_Sigma", "warm", "warm", "approx"]
    for _ in range(n):
        op = draw(st.sampled_from(OPS))
        i = draw(st.integers(0, len(objs) - 1))
        o = objs[i]
        stp = None
        if op in ("multiply", "hadamard"):
            fk = draw(st.sampled_from(FK + ["rank_one", "linear", "constant"]))
            if op == "multiply":
                R2 = 2 if (o["R"] * 2 <= MAXR and draw(st.booleans())) else 1
                Rn = o["R"] * R2
            else:
                R2 = draw(st.sampled_from([1, o["R"]]))
                Rn = o["R"]
            mode = draw(st.sampled_from(["new"] * 4 + ["reuse"] * 3 + ["self"]))
            if mode == "reuse" and last_f and last_f["D"] == o["D"] and (last_f["R2"] in (1, o["R"]) if op == "hadamard" else o["R"] * last_f["R2"] <= MAXR):
                # the SAME factor object as in the previous product (a factor that remembers something about its first partner)
                fk, R2, fpar = last_f["fkind"], last_f["R2"], last_f["f"]
                Rn = o["R"] if op == "hadamard" else o["R"] * R2
                stp = {"op": op, "i": i, "fkind": fk, "f": fpar, "update_full": draw(st.sampled_from([True, True, False])), "reuse": True}
            elif mode == "self" and (op == "hadamard" or o["R"] * o["R"] <= MAXR):
                # the measure multiplied with itself (one object on both sides)
                Rn = o["R"] if op == "hadamard" else o["R"] * o["R"]
                stp = {"op": op, "i": i, "fkind": "self", "f": None, "update_full": draw(st.sampled_from([True, True, False]))}
            else:
                stp = {"op": op, "i": i, "fkind": fk, "f": draw(gen.factor_params(fk, R2, o["D"], kappa)), "update_full": draw(st.sampled_from([True, True, False]))}
                last_f = {"fkind": fk, "R2": R2, "f": stp["f"], "D": o["D"]}
            objs.append({"pdf": False, "R": Rn, "D": o["D"]})
        elif op == "product":
            stp = {"op": op, "i": i}
            objs.append({"pdf": False, "R": 1, "D": o["D"]})
        elif op == "replace" and not o["pdf"]:
            # the dataclass utility replace(): a new measure with another information vector or log-constant (fields without
            # dependent constructor arguments; the lazily filled mean / log-normaliser must be recomputed for the new object)
            fld = draw(st.sampled_from(["nu", "ln_beta"]))
            val = draw(gen.arr((o["R"], o["D"]))) if fld == "nu" else draw(gen.arr((o["R"],)))
            stp = {"op": op, "i": i, "field": fld, "value": val}
            objs.append({"pdf": False, "R": o["R"], "D": o["D"]})
        elif op == "slice":
            idx = draw(gen.index_array(o["R"], 1, 3))
            if o["R"] > 16:
                idx = [o["R"] - 1] + idx  # the tail of a large batch
            stp = {"op": op, "i": i, "idx": idx}
            objs.append({"pdf": o["pdf"], "diag": o.get("diag", False), "R": len(idx), "D": o["D"]})
        elif op == "normalize":
            stp = {"op": op, "i": i}
        elif op == "get_density":
            stp = {"op": op, "i": i}
            objs.append({"pdf": True, "R": o["R"], "D": o["D"]})
        elif op == "get_marginal" and o["pdf"]:
            dims = draw(gen.perm_prefix(o["D"]))
            stp = {"op": op, "i": i, "dims": dims}
            objs.append({"pdf": True, "diag": o.get("diag", False), "R": o["R"], "D": len(dims)})
        elif op == "condition_on" and o["pdf"] and o["D"] >= 2 and o["R"] * 2 <= MAXR:
            dims = draw(gen.perm_prefix(o["D"], 1, o["D"] - 1))
            N = draw(st.integers(1, 2))
            stp = {"op": op, "i": i, "dims": dims, "x": draw(gen.arr((N, len(dims)), -2, 2))}
            conds.append({"kind": "full", "R": o["R"], "Dx": len(dims), "Dy": o["D"] - len(dims)})
            objs.append({"pdf": True, "R": o["R"] * N, "D": o["D"] - len(dims)})
        elif op == "update" and o["pdf"]:
            if o["R"] > 16:
                uidx = sorted(set(draw(st.lists(st.integers(0, o["R"] - 1), min_size=1, max_size=3)) + [o["R"] - 1]))
                k = len(uidx)
            else:
                k = draw(st.integers(1, o["R"]))
                uidx = list(draw(st.permutations(list(range(o["R"]))))[:k])
            # a diagonal density may only be updated with diagonal densities (class precondition)
            nk = "diag_pdf" if o.get("diag") else "pdf"
            stp = {"op": op, "i": i, "uidx": uidx, "nkind": nk, "new": draw(gen.measure_params(nk, k, o["D"], kappa))}
        elif op == "linear_sum" and o["pdf"]:
            K = draw(st.integers(1, o["D"]))
            W = draw(gen.spd(o["R"], o["D"], kappa=20.0, lam_lo=0.5, lam_hi=2.0))[:, :K, :]
            stp = {"op": op, "i": i, "W": W, "b": draw(gen.arr((o["R"], K)))}
            objs.append({"pdf": True, "R": o["R"], "D": K})
        elif op in ("joint", "marginal_t", "conditional_t", "cond_x", "update_Sigma"):
            j = draw(st.integers(0, len(conds) - 1))
            c = conds[j]
            if op == "cond_x":
                N = draw(st.integers(1, 2))
                if c["R"] * N <= MAXR:
                    stp = {"op": op, "j": j, "x": draw(gen.arr((N, c["Dx"]), -2, 2))}
                    objs.append({"pdf": True, "R": c["R"] * N, "D": c["Dy"]})
            elif op == "update_Sigma":
                stp = {"op": op, "j": j, "S": draw(gen.spd(c["R"], c["Dy"], kappa=kappa, diag=c["kind"] in ("diag", "identity_diag")))}
            else:
                cand = [k for k, ob in enumerate(objs) if ob["pdf"] and ob["D"] == c["Dx"] and (ob["R"] == 1 or c["R"] == 1) and ob["R"] * c["R"] <= MAXR]
                if cand:
                    i = draw(st.sampled_from(cand))
                    o = objs[i]
                    R = o["R"] * c["R"]
                    stp = {"op": op, "j": j, "i": i}
                    if op == "joint":
                        objs.append({"pdf": True, "R": R, "D": c["Dx"] + c["Dy"]})
                    elif op == "marginal_t":
                        objs.append({"pdf": True, "R": R, "D": c["Dy"]})
                    else:
                        conds.append({"kind": "full", "R": R, "Dx": c["Dy"], "Dy": c["Dx"]})
        elif op == "approx":
            cand = [k for k, ob in enumerate(objs) if ob["pdf"] and ob["D"] <= 3 and ob["R"] == 1]
            if cand:
                i = draw(st.sampled_from(cand))
                o = objs[i]
                ak = draw(st.sampled_from(gen.FEATURE_KINDS + gen.HET_KINDS))
                route = draw(st.sampled_from(["joint", "marginal_t", "conditional_t", "cond_x"]))
                Dy = draw(st.integers(1, 2))
                Dk = draw(st.integers(1, 2))
                if ak in gen.FEATURE_KINDS:
                    ap = draw(gen.feature_params(ak, o["D"], Dy, Dk))
                else:
                    Da = draw(st.sampled_from([Dy, max(Dy, Dk), max(Dy, Dk) + 1]))
                    Da = max(Da, Dy, Dk)
                    ap = draw(gen.het_params(ak, o["D"], Dy, Da, Dk, wscale=draw(st.sampled_from([0.3, 1.0]))))
                stp = {"op": op, "i": i, "akind": ak, "route": route, "ap": ap, "x": draw(gen.arr((2, o["D"]), -1.5, 1.5))}
                if route == "joint":
                    objs.append({"pdf": True, "R": 1, "D": o["D"] + Dy})
                elif route == "marginal_t":
                    objs.append({"pdf": True, "R": 1, "D": Dy})
                elif route == "conditional_t":
                    conds.append({"kind": "full", "R": 1, "Dx": Dy, "Dy": o["D"]})
                else:
                    objs.append({"pdf": True, "R": 2, "D": Dy})
        if stp is None:
            stp = {"op": "warm", "i": i, "which": draw(st.sampled_from(["integrate_x", "log_integral_light", "evaluate", "get_density", "integrate_xx", "sample"]))}
        if stp["op"] == "warm" and "which" not in stp:
            stp["which"] = draw(st.sampled_from(["integrate_x", "log_integral_light", "evaluate", "get_density", "integrate_xx", "sample"]))
        steps.append(stp)
    return {"D": D0, "R": R0, "init": init, "steps": steps}


def _strategy(shapes):
    return st.sampled_from(shapes).flatmap(lambda s: _history(s[0], s[1], s[2]))


# ------------------------------------------------------------------------------------------ invariants
def _check_measure(fails, tag, m):
    """Every cache that is present matches (Lambda, nu)."""
    Lam = np.asarray(m.Lambda, float)
    nu = np.asarray(m.nu, float)
    if not (np.all(np.isfinite(Lam)) and np.all(np.isfinite(nu))):
        fails.append(Failure(tag + ":nonfinite", f"{tag}: Lambda / nu not finite"))
        return
    R, D = nu.shape if nu.ndim == 2 else (Lam.shape[0], Lam.shape[1])
    if Lam.shape != (R, D, D):
        fails.append(Failure(tag + ":illformed", f"{tag}: Lambda {Lam.shape} vs nu {nu.shape}"))
        return
    w = np.linalg.eigvalsh(0.5 * (Lam + np.swapaxes(Lam, 1, 2)))
    if np.any(w <= 0):
        fails.append(Failure(tag + ":not_pd", f"{tag}: precision not positive definite (min eig {w.min():.3g})"))
        return
    kap = w.max(-1) / w.min(-1)
    if np.any(kap > 1e6):
        fails.append(Failure("excluded:ill_conditioned_derived", tag))
        return
    Sig = oracle.inv_spd(Lam)
    ld, lds = oracle.slogdet_spd(Lam)
    for nm, want, scale in [
        ("Sigma", Sig, np.abs(Sig).max((1, 2))[:, None, None] * kap[:, None, None] * np.ones_like(Sig)),
        ("ln_det_Sigma", -ld, lds * kap),
        ("ln_det_Lambda", ld, lds * kap),
    ]:
        v = getattr(m, nm, None)
        if v is None:
            continue
        v = np.asarray(v, float)
        if v.shape != want.shape:
            fails.append(Failure(f"{tag}.{nm}:shape", f"{tag}: cached {nm} has shape {v.shape}, expected {want.shape}"))
            continue
        check(fails, f"{tag}:{nm}_vs_Lambda", v, want, scale)
    mu = np.einsum("rij,rj->ri", Sig, nu)
    v = getattr(m, "mu", None)
    if v is not None:
        v = np.asarray(v, float)
        if v.shape != mu.shape:
            fails.append(Failure(f"{tag}.mu:shape", f"{tag}: mu has shape {v.shape}, expected {mu.shape}"))
        else:
            check(fails, f"{tag}:mu_vs_Lambda_nu", v, mu, (1 + np.abs(mu)) * kap[:, None])
    v = getattr(m, "lnZ", None)
    if v is not None:
        nSn = np.einsum("ri,rij,rj->r", nu, Sig, nu)
        lnZ = 0.5 * (nSn + D * oracle.LN2PI - ld)
        v = np.asarray(v, float)
        if v.shape != lnZ.shape:
            fails.append(Failure(f"{tag}.lnZ:shape", f"{tag}: lnZ has shape {v.shape}, expected {lnZ.shape}"))
        else:
            check(fails, f"{tag}:lnZ", v, lnZ, (1 + 0.5 * (np.abs(nSn) + D * oracle.LN2PI + lds)) * kap)


def _check_cond(fails, tag, c):
    Sig = np.asarray(c.Sigma, float)
    Lam = np.asarray(c.Lambda, float)
    if not (np.all(np.isfinite(Sig)) and np.all(np.isfinite(Lam))):
        fails.append(Failure(tag + ":nonfinite", f"{tag}: Sigma / Lambda not finite"))
        return
    w = np.linalg.eigvalsh(0.5 * (Sig + np.swapaxes(Sig, 1, 2)))
    if np.any(w <= 0):
        fails.append(Failure(tag + ":not_pd", f"{tag}: conditional covariance not positive definite"))
        return
    kap = w.max(-1) / w.min(-1)
    if np.any(kap > 1e6):
        fails.append(Failure("excluded:ill_conditioned_derived", tag))
        return
    Li = oracle.inv_spd(Sig)
    check(fails, f"{tag}:Lambda_vs_Sigma", Lam, Li, np.abs(Li).max((1, 2))[:, None, None] * kap[:, None, None] * np.ones_like(Li))
    ld, lds = oracle.slogdet_spd(Sig)
    check(fails, f"{tag}:ln_det_Sigma", np.asarray(c.ln_det_Sigma, float), ld, lds * kap)


# ------------------------------------------------------------------------------------------ cold clones
def _clone_measure(m):
    from gaussian_toolbox import measure, pdf
    from ..libx import J

    if isinstance(m, pdf.GaussianDiagPDF):
        return pdf.GaussianDiagPDF(Sigma=J(np.asarray(m.Sigma)), mu=J(np.asarray(m.mu)))
    if isinstance(m, pdf.GaussianPDF):
        return pdf.GaussianPDF(Sigma=J(np.asarray(m.Sigma)), mu=J(np.asarray(m.mu)))
    cls = measure.GaussianDiagMeasure if isinstance(m, measure.GaussianDiagMeasure) else measure.GaussianMeasure
    return cls(Lambda=J(np.asarray(m.Lambda)), nu=J(np.asarray(m.nu)), ln_beta=J(np.asarray(m.ln_beta)))


def _clone_cond(c):
    from gaussian_toolbox import conditional
    from ..libx import J

    cls = type(c)
    if cls in (conditional.ConditionalIdentityGaussianPDF, conditional.ConditionalIdentityDiagGaussianPDF):
        return cls(Sigma=J(np.asarray(c.Sigma)))
    return cls(M=J(np.asarray(c.M)), b=J(np.asarray(c.b)), Sigma=J(np.asarray(c.Sigma)))


_WARM = {
    "integrate_x": lambda m: m.integrate("x"),
    "log_integral_light": lambda m: m.log_integral_light(),
    "evaluate": lambda m: m.evaluate(__import__("jax").numpy.zeros((1, m.D))),
    "get_density": lambda m: m.get_density(),
    "integrate_xx": lambda m: m.integrate("xx'"),
    # drawing samples is a read-only query too (densities only; measures fall back to a mass query)
    "sample": lambda m: m.sample(__import__("jax").random.PRNGKey(3), 2) if hasattr(m, "sample") else m.log_integral_light(),
}


def _run(case):
    from .. import libx, objcmp
    from ..libx import J
    import jax.numpy as jnp
    from gaussian_toolbox import factor, pdf

    fails = []
    objs, conds = [], []
    for it in case["init"]:
        if it["what"] == "measure":
            ok, m = lib(fails, "construct_measure", libx.make_measure, it["kind"], it["p"], it["cache"])
            if not ok:
                return fails
            objs.append(m)
        else:
            ok, cu = lib(fails, "construct_cond", libx.make_cond, it["p"])
            if not ok:
                return fails
            conds.append(cu[0])
    stats = {"producing": 0, "fast_path": 0}
    kf_flag = {}
    # immutability ledger: what every pooled object evaluates to; only the target of an in-place step may change
    ledger = {}

    def _probe(o):
        if hasattr(o, "evaluate_ln"):
            D = int(o.D)
            X = np.stack([np.full(D, 0.3), np.linspace(-0.7, 0.9, D)])
            return [np.asarray(o.evaluate_ln(J(X)), float)]
        return [np.asarray(getattr(o, a), float) for a in ("Sigma", "Lambda", "ln_det_Sigma", "M", "b") if getattr(o, a, None) is not None and not callable(getattr(o, a))]

    def _ledger_check(targets, where):
        """targets: objects that the step was allowed to change in place.  Entries are keyed by pool position, so if an
        operation handed out an object that is already pooled (a memoised result), changing it through one handle
        is seen on the other."""
        entries = [("o", k, o) for k, o in enumerate(objs)] + [("c", k, o) for k, o in enumerate(conds)]
        tpos = set()
        for kind_, k, o in entries:
            if any(o is t for t in targets):
                tpos.add((kind_, k))
        # a target is identified by the FIRST pool position holding that object (the handle the step was applied to
        # is resolved by the caller through `inplace_positions`)
        for kind_, k, o in entries:
            key_ = (kind_, k)
            is_target = key_ in inplace_positions
            if is_target:
                ledger.pop(key_, None)
            if key_ in ledger:
                ref = ledger[key_]
                try:
                    cur = _probe(o)
                except Exception:
                    continue
                same = len(cur) == len(ref) and all(a.shape == b_.shape and np.allclose(a, b_, rtol=1e-10, atol=1e-10, equal_nan=True) for a, b_ in zip(cur, ref))
                if not same:
                    fails.append(Failure(f"after[{where}]:bystander_changed", f"step ({where}) changed a pooled object that was not its target (aliasing / memoised result / in-place update of an operand)"))
                    ledger[key_] = cur
            else:
                try:
                    ledger[key_] = _probe(o)
                except Exception:
                    pass

    inplace_positions = set()
    _ledger_check([], "init")

    class _Stop(Exception):
        pass

    def produce(tag, fn_live, fn_cold, pts_D=None):
        """run on live operands and on cold clones; compare; return live result.
        If no result can be delivered the history stops (pools must stay aligned with the generator's model)."""
        ok, ra, rb = objcmp.both(fails, tag, fn_live, fn_cold)
        if not ok:
            raise _Stop()
        kap = 1.0
        for r in (ra if isinstance(ra, tuple) else (ra,)):
            L = getattr(r, "Lambda", None)
            if L is not None:
                if not np.all(np.isfinite(np.asarray(L, float))):
                    f0 = Failure(tag + ":nonfinite", f"{tag}: result has a non-finite precision matrix")
                    f0.update(kf_flag)
                    fails.append(f0)
                    raise _Stop()
                k = float(np.max(oracle.cond(np.asarray(L, float))))
                if not np.isfinite(k) or k > 1e6:
                    fails.append(Failure("excluded:ill_conditioned_derived", tag))
                    raise _Stop()
                kap = max(kap, k)
        f2 = []
        pts = None
        objcmp.compare(f2, tag + ":query_dependence", ra, rb, kap, pts=pts)
        for f in f2:
            f.update(kf_flag)
        fails.extend(f2)
        return ra

    prev_factor = []
    for n, stp in enumerate(case["steps"]):
      try:
        op = stp["op"]
        kf_flag = {}
        n_before = len(objs)
        inplace_targets = []
        inplace_positions.clear()
        if op in ("multiply", "hadamard"):
            m = objs[stp["i"]]
            uf = stp["update_full"]
            if stp["fkind"] == "self":
                r = produce(f"{op}[self]", lambda: getattr(m, op)(m, update_full=uf), lambda: getattr(_clone_measure(m), op)(_clone_measure(m), update_full=uf))
            else:
                f = prev_factor[0] if (stp.get("reuse") and prev_factor) else libx.make_factor(stp["fkind"], stp["f"])
                prev_factor[:] = [f]
                if stp["fkind"] in ("rank_one", "linear", "constant") and getattr(m, "Sigma", None) is not None and uf:
                    stats["fast_path"] += 1
                r = produce(f"{op}[{stp['fkind']}]" + (".reused_factor" if stp.get("reuse") else ""), lambda: getattr(m, op)(f, update_full=uf), lambda: getattr(_clone_measure(m), op)(libx.make_factor(stp["fkind"], stp["f"]), update_full=uf))
            if r is not None:
                objs.append(r)
                stats["producing"] += 1
        elif op == "product":
            m = objs[stp["i"]]
            r = produce("product", lambda: m.product(), lambda: _clone_measure(m).product())
            if r is not None:
                objs.append(r)
                stats["producing"] += 1
        elif op == "replace":
            m = objs[stp["i"]]
            kwv = {stp["field"]: J(stp["value"])}
            r = produce(f"replace[{stp['field']}]", lambda: m.replace(**kwv), lambda: _clone_measure(m).replace(**kwv))
            if r is not None:
                objs.append(r)
                stats["producing"] += 1
        elif op == "slice":
            m = objs[stp["i"]]
            idx = jnp.array(stp["idx"])
            r = produce("slice", lambda: m.slice(idx), lambda: _clone_measure(m).slice(idx))
            if r is not None:
                objs.append(r)
                stats["producing"] += 1
        elif op == "normalize":
            m = objs[stp["i"]]
            lib(fails, "normalize", lambda: m.normalize())
            inplace_targets.append(m)
            inplace_positions.add(("o", stp["i"]))
            stats["producing"] += 1
        elif op == "get_density":
            m = objs[stp["i"]]
            r = produce("get_density", lambda: m.get_density(), lambda: _clone_measure(m).get_density())
            if r is not None:
                objs.append(r)
                stats["producing"] += 1
        elif op == "get_marginal":
            m = objs[stp["i"]]
            d = jnp.array(stp["dims"])
            r = produce("get_marginal", lambda: m.get_marginal(d), lambda: _clone_measure(m).get_marginal(d))
            if r is not None:
                objs.append(r)
                stats["producing"] += 1
        elif op == "condition_on":
            m = objs[stp["i"]]
            d = jnp.array(stp["dims"])
            r = produce("condition_on", lambda: m.condition_on(d), lambda: _clone_measure(m).condition_on(d))
            if r is not None:
                conds.append(r)
                x = J(stp["x"])
                r2 = produce("condition_on(x)", lambda: r(x), lambda: _clone_cond(r)(x))
                if r2 is not None:
                    objs.append(r2)
                stats["producing"] += 1
        elif op == "update":
            m = objs[stp["i"]]
            new = libx.make_measure(stp.get("nkind", "pdf"), stp["new"])
            lib(fails, "update", lambda: m.update(jnp.array(stp["uidx"]), new))
            inplace_targets.append(m)
            inplace_positions.add(("o", stp["i"]))
            stats["producing"] += 1
        elif op == "linear_sum":
            m = objs[stp["i"]]
            W, b = J(stp["W"]), J(stp["b"])
            r = produce("linear_sum", lambda: m.get_density_of_linear_sum(W, b), lambda: _clone_measure(m).get_density_of_linear_sum(W, b))
            if r is not None:
                objs.append(r)
                stats["producing"] += 1
        elif op in ("joint", "marginal_t", "conditional_t"):
            c, m = conds[stp["j"]], objs[stp["i"]]
            meth = {"joint": "affine_joint_transformation", "marginal_t": "affine_marginal_transformation", "conditional_t": "affine_conditional_transformation"}[op]
            r = produce(op, lambda: getattr(c, meth)(m), lambda: getattr(_clone_cond(c), meth)(_clone_measure(m)))
            if r is not None:
                (conds if op == "conditional_t" else objs).append(r)
                stats["producing"] += 1
        elif op == "cond_x":
            c = conds[stp["j"]]
            x = J(stp["x"])
            r = produce("cond(x)", lambda: c(x), lambda: _clone_cond(c)(x))
            if r is not None:
                objs.append(r)
                stats["producing"] += 1
        elif op == "update_Sigma":
            c = conds[stp["j"]]
            # a compatible pooled density, to exercise the conditional before and after the in-place change
            probe_px = next((o for o in objs if hasattr(o, "sample") and int(o.D) == int(c.Dx) and (int(o.R) == 1 or int(c.R) == 1)), None)
            if probe_px is not None:
                lib(fails, "update_Sigma.warm_joint", lambda: (c.affine_joint_transformation(probe_px), c.affine_conditional_transformation(probe_px)))
            lib(fails, "update_Sigma", lambda: c.update_Sigma(J(stp["S"])))
            inplace_targets.append(c)
            inplace_positions.add(("c", stp["j"]))
            if probe_px is not None:
                for meth in ("affine_joint_transformation", "affine_conditional_transformation", "affine_marginal_transformation"):
                    produce(f"update_Sigma.then_{meth}", lambda: getattr(c, meth)(probe_px), lambda: getattr(_clone_cond(c), meth)(_clone_measure(probe_px)))
            stats["producing"] += 1
        elif op == "approx":
            m = objs[stp["i"]]
            ap = stp["ap"]
            het = stp["akind"] in gen.HET_KINDS
            mk = (libx.make_het if het else libx.make_feature)
            if het and ap["Da"] > ap["Dy"]:
                kf_flag = {"kf_het_da": True}
            route = stp["route"]
            tag = f"approx[{'het' if het else stp['akind']}].{route}"
            if het and stp["akind"] in ("exp", "cosh") and route != "cond_x":
                # E link(h) grows like exp(Var h / 2): beyond Var h ~ 20 the matched covariance leaves the
                # conditioning domain of the properties (cond > 1e6); such steps end the history (counted)
                Wn = np.asarray(ap["W"], float)[:, 1:]
                vh = np.einsum("ki,ij,kj->k", Wn, np.asarray(m.Sigma, float)[0], Wn)
                if np.any(vh > 20.0):
                    fails.append(Failure("excluded:approx_extreme_regime", tag))
                    raise _Stop()
            if route == "cond_x":
                x = J(stp["x"])
                r = produce(tag, lambda: mk(ap)(x), lambda: mk(ap)(x))
                tgt = objs
            else:
                meth = {"joint": "affine_joint_transformation", "marginal_t": "affine_marginal_transformation", "conditional_t": "affine_conditional_transformation"}[route]
                r = produce(tag, lambda: getattr(mk(ap), meth)(m), lambda: getattr(mk(ap), meth)(_clone_measure(m)))
                tgt = conds if route == "conditional_t" else objs
            if r is not None:
                tgt.append(r)
                stats["producing"] += 1
                # invariants of this freshly produced object are judged right away so that the known-finding flag applies
                f2 = []
                (_check_cond if tgt is conds else _check_measure)(f2, tag, r)
                for f in f2:
                    f.update(kf_flag)
                fails.extend(f2)
                if f2:
                    raise _Stop()  # already reported; do not propagate the object
        elif op == "warm":
            m = objs[stp["i"]]
            lib(fails, f"warm.{stp['which']}", lambda: _WARM[stp["which"]](m))
        _ledger_check(inplace_targets, op)
        # invariant after every step, for every pooled object
        f_inv = []
        for k, m in enumerate(objs):
            _check_measure(f_inv, f"obj{k}", m)
        # caches are filled lazily: the newest object is additionally checked with its caches forced, on a clone of the
        # same class (so the live object's cache state - and with it the cold paths of later steps - is left untouched)
        if objs and len(objs) > n_before and not kf_flag:
            def forced():
                cl = _clone_measure(objs[-1])
                cl.integrate("x")
                return cl
            ok_f, cl = lib(f_inv, f"obj{len(objs) - 1}:forced_caches", forced)
            if ok_f:
                _check_measure(f_inv, f"obj{len(objs) - 1}(forced)", cl)
        for k, c in enumerate(conds):
            _check_cond(f_inv, f"cond{k}", c)
        if f_inv:
            for f in f_inv:
                if not f["label"].startswith("excluded:"):
                    f["label"] = f"after[{op}]:" + f["label"].split(":", 1)[1]
                    f["msg"] = f"step {n} ({op}): " + f["msg"]
            fails.extend(f_inv)
            if any(not f["label"].startswith("excluded:") for f in f_inv):
                break
      except _Stop:
        break
    # end of history: every pooled density still samples from its CURRENT parameters (mu + chol(Sigma) z)
    import jax
    for k, m in enumerate(objs):
        if not hasattr(m, "sample") or any(f["label"].startswith("after[") for f in fails):
            continue
        try:
            Sg, mu_ = np.asarray(m.Sigma, float), np.asarray(m.mu, float)
            Lc = np.linalg.cholesky(Sg)
        except Exception:
            continue
        key = jax.random.PRNGKey(11 + k)
        ok, xs = lib(fails, "final.sample", lambda: np.asarray(m.sample(key, 3)))
        if ok and xs.shape == (3,) + mu_.shape:
            z = np.asarray(jax.random.normal(key, xs.shape))
            want = mu_[None] + np.einsum("rij,nrj->nri", Lc, z)
            kap = float(np.max(oracle.cond(Sg)))
            if np.isfinite(kap) and kap < 1e6:
                check(fails, "final:sample_vs_parameters", xs, want, (1.0 + np.abs(want)) * max(1.0, kap) ** 0.5)
    case["_stats"] = stats
    return fails


def _nontrivial(case):
    s = case.get("_stats")
    if s is None:
        prod = sum(1 for t in case["steps"] if t["op"] != "warm")
        return prod >= 2
    return s["producing"] >= 2 and s["fast_path"] >= 1


def _labels(case):
    out = [f"len={len(case['steps'])}"] + [f"op={t['op']}" for t in case["steps"]]
    out += ["factor=self" for t in case["steps"] if t.get("fkind") == "self"] + ["factor=reused_object" for t in case["steps"] if t.get("reuse")]
    s = case.get("_stats")
    if s:
        out.append(f"fast_path={'yes' if s['fast_path'] else 'no'}")
    return out


# ------------------------------------------------------------------------------------------ repeat, mutate, re-read
_RM_OPS = ["get_density", "slice", "product", "multiply", "hadamard", "get_marginal", "condition_on", "cond_x", "linear_sum",
           "joint", "marginal_t", "conditional_t"]


def _pool_rm(tier):
    base = [(1, 1), (2, 2), (3, 1), (2, 3), (3, 2), (4, 1)]
    if tier == "thorough":
        base += [(4, 3), (5, 2), (2, 1), (1, 3)]
    return base


def _strategy_rm(shapes):
    @st.composite
    def s(draw):
        D, R = draw(st.sampled_from(shapes))
        op = draw(st.sampled_from(_RM_OPS))
        kappa = draw(st.sampled_from([10.0, 50.0]))
        mkind = draw(st.sampled_from(gen.MEASURE_KINDS if op in ("get_density", "slice", "product", "multiply", "hadamard") else ["pdf", "diag_pdf"]))
        ck = draw(st.sampled_from(["full", "diag", "identity", "identity_diag"]))
        Dy = D if ck.startswith("identity") else draw(st.integers(1, 3))
        fk = draw(st.sampled_from(gen.FACTOR_KINDS))
        k = draw(st.integers(1, R))
        return {"D": D, "R": R, "op": op, "mkind": mkind, "cache": draw(st.sampled_from(gen.CACHES)),
                "m": draw(gen.measure_params(mkind, R, D, kappa)),
                "c": draw(gen.cond_params(ck, 1, D, Dy, kappa)), "px": draw(gen.measure_params("pdf", R, D, kappa)),
                "fkind": fk, "f": draw(gen.factor_params(fk, R if op == "hadamard" else 1, D, kappa)), "update_full": draw(st.booleans()),
                "idx": draw(gen.index_array(R, 1, 3)), "dims": draw(gen.perm_prefix(D, 1, max(1, D - 1))),
                "x": draw(gen.arr((2, D), -2, 2)), "W": draw(gen.spd(R, D, kappa=20.0, lam_lo=0.5, lam_hi=2.0))[:, :1, :],
                "new": draw(gen.measure_params("pdf", k, 12, kappa)),  # cut down to the result's dimension (<= 2 D <= 10) "uidx": list(draw(st.permutations(list(range(R))))[:k]),
                "Snew": draw(gen.spd(1, 12, kappa=kappa)), "mutator": draw(st.sampled_from(["normalize", "update", "update"]))}
    return s()


def _rm_probe(o):
    from ..libx import J

    if hasattr(o, "evaluate_ln"):
        D = int(o.D)
        X = np.stack([np.full(D, 0.3), np.linspace(-0.7, 0.9, D)])
        out = [np.asarray(o.evaluate_ln(J(X)), float)]
        for a in ("mu", "Sigma"):
            v = getattr(o, a, None)
            if v is not None:
                out.append(np.asarray(v, float))
        return out
    return [np.asarray(getattr(o, a), float) for a in ("Sigma", "Lambda", "ln_det_Sigma", "M", "b") if getattr(o, a, None) is not None and not callable(getattr(o, a))]


def _rm_same(a, b):
    return len(a) == len(b) and all(x.shape == y.shape and np.allclose(x, y, rtol=1e-9, atol=1e-9, equal_nan=True) for x, y in zip(a, b))


def _run_rm(case):
    """r1 = op(operands); r2 = op(operands) again; mutate r1 in place; r2, the operands and a third call must be untouched."""
    from .. import libx
    from ..libx import J
    import jax.numpy as jnp
    from gaussian_toolbox import pdf as pdfmod

    fails = []
    op, D, R = case["op"], case["D"], case["R"]
    if op == "condition_on" and D < 2:
        return fails
    ok, m = lib(fails, "construct_measure", libx.make_measure, case["mkind"], case["m"], case["cache"])
    ok2, cu = lib(fails, "construct_cond", libx.make_cond, case["c"])
    ok3, px = lib(fails, "construct_px", libx.make_measure, "pdf", case["px"])
    if not (ok and ok2 and ok3):
        return fails
    c = cu[0]
    f = libx.make_factor(case["fkind"], case["f"])
    x = J(case["x"])
    idx = jnp.array(case["idx"])
    dims = jnp.array(case["dims"])
    calls = {
        "get_density": (lambda: m.get_density(), [m]),
        "slice": (lambda: m.slice(idx), [m]),
        "product": (lambda: m.product(), [m]),
        "multiply": (lambda: m.multiply(f, update_full=case["update_full"]), [m, f]),
        "hadamard": (lambda: m.hadamard(f, update_full=case["update_full"]), [m, f]),
        "get_marginal": (lambda: m.get_marginal(dims), [m]),
        "condition_on": (lambda: m.condition_on(dims), [m]),
        "cond_x": (lambda: c(x), [c]),
        "linear_sum": (lambda: m.get_density_of_linear_sum(J(case["W"])), [m]),
        "joint": (lambda: c.affine_joint_transformation(px), [c, px]),
        "marginal_t": (lambda: c.affine_marginal_transformation(px), [c, px]),
        "conditional_t": (lambda: c.affine_conditional_transformation(px), [c, px]),
    }
    fn, operands = calls[op]
    ok, r1 = lib(fails, f"{op}", fn)
    ok2, r2 = lib(fails, f"{op}", fn)
    if not (ok and ok2):
        return fails
    before = {"r2": _rm_probe(r2), "ops": [_rm_probe(o) for o in operands]}
    # mutate r1 in place with whatever in-place operation its type offers
    tag = f"{op}:then_mutate"
    if hasattr(r1, "update_Sigma") and not hasattr(r1, "evaluate_ln"):
        Dy_r = int(r1.Dy)
        if Dy_r > np.asarray(case["Snew"]).shape[-1]:
            return fails  # no replacement of that size was generated
        Sn = np.asarray(case["Snew"], float)[:, :Dy_r, :Dy_r] * 1.7
        ok, _ = lib(fails, tag + ".update_Sigma", lambda: r1.update_Sigma(J(np.tile(Sn, (int(r1.R), 1, 1)))))
    elif isinstance(r1, pdfmod.GaussianPDF) and case["mutator"] == "update":
        Dr, Rr = int(r1.D), int(r1.R)
        if Dr > np.asarray(case["new"]["Sigma"]).shape[-1]:
            return fails  # no replacement of that size was generated
        newp = {"Sigma": np.asarray(case["new"]["Sigma"], float)[:1, :Dr, :Dr] * 1.3, "mu": np.asarray(case["new"]["mu"], float)[:1, :Dr] + 0.7}
        kind_new = "diag_pdf" if isinstance(r1, pdfmod.GaussianDiagPDF) else "pdf"
        if kind_new == "diag_pdf":
            newp["Sigma"] = newp["Sigma"] * np.eye(Dr)[None]
        d = libx.make_measure(kind_new, newp)
        ok, _ = lib(fails, tag + ".update", lambda: r1.update(jnp.array([Rr - 1]), d))
    elif hasattr(r1, "normalize"):
        ok, _ = lib(fails, tag + ".normalize", lambda: (r1.normalize(), setattr(r1, "ln_beta", r1.ln_beta - 0.5))[0])
    else:
        return fails
    if not ok:
        return fails
    # the mutated object itself: every field it exposes must describe its NEW parameters
    if hasattr(r1, "evaluate_ln") and hasattr(r1, "Lambda") and hasattr(r1, "nu"):
        _check_measure(fails, f"{op}:mutated_result", r1)
    if not _rm_same(_rm_probe(r2), before["r2"]):
        fails.append(Failure(f"{op}:second_result_changed", f"mutating the first result of {op} in place changed the result of a second, independent call"))
    for o, ref in zip(operands, before["ops"]):
        if not _rm_same(_rm_probe(o), ref):
            fails.append(Failure(f"{op}:operand_changed", f"mutating the result of {op} in place changed an operand ({type(o).__name__})"))
    ok, r3 = lib(fails, f"{op}.third_call", fn)
    if ok and not _rm_same(_rm_probe(r3), before["r2"]):
        fails.append(Failure(f"{op}:later_call_changed", f"after mutating an earlier result in place, {op} on the same operands returns something else"))
    return fails


SUBS = [
    Sub("histories", _pool, _strategy, _run, _nontrivial, _labels,
        examples={"quick": 100, "thorough": 400}, shards={"quick": 16, "thorough": 32},
        rule=">=2 producing steps and >=1 low-rank/linear/constant product on an operand with cached covariance"),
    Sub("repeat_mutate", _pool_rm, _strategy_rm, _run_rm, lambda c: c["R"] * c["D"] >= 2,
        lambda c: [f"op={c['op']}", f"mkind={c['mkind']}", f"mutator={c['mutator']}"],
        examples={"quick": 80, "thorough": 400}, shards={"quick": 6, "thorough": 10}, rule="R*D>=2"),
]
