"""C12 - batches are independent components; slicing commutes with every operation."""
import numpy as np
from hypothesis import strategies as st

from .. import gen, oracle
from ..compare import Failure, check, lib
from ..sub import Sub

RULE = ("Metamorphic: op(objects).slice(idx') == op(objects sliced by idx) following the documented layouts "
        "(products i*R2+j; conditioning on N points r*N+n; transformations with one single-component operand: batch index of the other). "
        "Non-trivial: R >= 2 and idx is not the identity (repetitions, negative entries, permutations, singletons).")
BOUNDS = {"R": "1..6", "D": "1..4", "idx length": "1..R+2"}
ASSUMPTIONS = ["both sides are computed by the library; agreement up to 1e-8 * (magnitude * condition number)",
               "per-component coefficient arrays / limits / observations are sliced alongside the object"]


def _take(res, idx):
    """slice a result (array -> fancy index on axis 0, object -> .slice).
    The index array's dtype / container varies deterministically with its content (int64 / int32 jax arrays, numpy int64)."""
    import jax.numpy as jnp

    if hasattr(res, "slice"):
        k = (sum(idx) + len(idx)) % 3
        ia = jnp.array(idx) if k == 0 else (jnp.array(idx, dtype=jnp.int32) if k == 1 else np.array(idx, dtype=np.int64))
        return res.slice(ia)
    return np.asarray(res)[np.array(idx)]


def _idx(draw, R):
    return draw(gen.index_array(R, 1, R + 2))


def _kap(*mats):
    k = 1.0
    for m in mats:
        k *= float(np.max(np.maximum(1.0, oracle.cond(np.asarray(m, float)))))
    return k


# ------------------------------------------------------------------------------------------ measures / densities
_MOPS = ["evaluate_ln", "log_integral", "integrate_x", "integrate_xx", "integrate_lin", "integrate_quad_inner", "integrate_quartic",
         "integrate_xbxx", "integrate_xAxx", "integrate_cubic", "integrate_cubic_outer", "integrate_quartic_inner", "get_density", "slice_slice", "log_factor"]
_POPS = ["marginal", "condition_on", "linear_sum", "entropy", "kl", "condition_on_explicit"]


def _pool_m(tier):
    base = [(1, 2), (2, 3), (3, 2), (2, 5), (4, 3), (3, 6), (2, 1), (3, 4), (2, 20), (18, 2)]
    if tier == "thorough":
        base += [(4, 6), (1, 5), (4, 2), (2, 4), (3, 3), (1, 6)]
    return base


def _strategy_m(shapes):
    @st.composite
    def s(draw):
        D, R = draw(st.sampled_from(shapes))
        kind = draw(st.sampled_from(gen.MEASURE_KINDS))
        ops = _MOPS + (_POPS if kind.endswith("pdf") else [])
        op = draw(st.sampled_from(ops))
        kappa = draw(st.sampled_from([10.0, 100.0]))
        idx = _idx(draw, R)
        case = {"D": D, "R": R, "kind": kind, "op": op, "cache": draw(st.sampled_from(gen.CACHES)), "idx": idx,
                "m": draw(gen.measure_params(kind, R, D, kappa)), "x": draw(gen.arr((2, D), -2, 2)),
                "A": draw(gen.arr((R, 2, D))), "a": draw(gen.arr((R, 2))), "B": draw(gen.arr((2, D))), "bv": draw(gen.arr((R, D)))}
        if op == "slice_slice":
            case["idx2"] = _idx(draw, len(idx))
        if op == "log_factor":
            fk = draw(st.sampled_from(gen.FACTOR_KINDS))
            case["fkind"] = fk
            case["Rf"] = draw(st.sampled_from([1, R]))
            case["f"] = draw(gen.factor_params(fk, case["Rf"], D, kappa))
        if op == "kl":
            case["Rq"] = draw(st.sampled_from([1, R]))
            case["q"] = draw(gen.measure_params("pdf", case["Rq"], D, kappa))
        if op in ("marginal", "condition_on", "condition_on_explicit"):
            if D < 2 and op != "marginal":
                case["op"] = "entropy"
            else:
                case["dims"] = draw(gen.perm_prefix(D, 1, D if op == "marginal" else D - 1))
        if op == "linear_sum":
            K = draw(st.integers(1, D))
            case["W"] = draw(gen.spd(R, D, kappa=20.0, lam_lo=0.5, lam_hi=2.0))[:, :K, :]
            case["wb"] = draw(gen.arr((R, K)))
        return case
    return s()


def _run_m(case):
    from .. import libx, objcmp
    from ..libx import J
    import jax.numpy as jnp

    fails = []
    D, R, op, idx = case["D"], case["R"], case["op"], case["idx"]
    ok, m = lib(fails, "construct", libx.make_measure, case["kind"], case["m"], case["cache"])
    if not ok:
        return fails
    ok, ms = lib(fails, "slice", lambda: m.slice(jnp.array(idx)))
    if not ok:
        return fails
    _empty_slice(fails, m, case["kind"], D)
    Lm, _, _ = libx.measure_params_np(case["kind"], case["m"])
    kap = _kap(Lm)
    x = J(case["x"])
    A, a, B, bv = (np.asarray(case[k], float) for k in ("A", "a", "B", "bv"))
    ii = np.array(idx)
    pts = np.asarray(case["x"], float)
    tag = f"{case['kind']}.{op}"
    if op == "evaluate_ln":
        fa, fb = (lambda: m.evaluate_ln(x)), (lambda: ms.evaluate_ln(x))
    elif op == "log_integral":
        fa, fb = (lambda: m.log_integral()), (lambda: ms.log_integral())
    elif op == "integrate_x":
        fa, fb = (lambda: m.integrate("x")), (lambda: ms.integrate("x"))
    elif op == "integrate_xx":
        fa, fb = (lambda: m.integrate("xx'")), (lambda: ms.integrate("xx'"))
    elif op == "integrate_lin":
        fa = lambda: m.integrate("(Ax+a)", A_mat=J(A), a_vec=J(a))
        fb = lambda: ms.integrate("(Ax+a)", A_mat=J(A[ii]), a_vec=J(a[ii]))
    elif op == "integrate_quad_inner":
        fa = lambda: m.integrate("(Ax+a)'(Bx+b)", A_mat=J(A), a_vec=J(a), B_mat=J(B))
        fb = lambda: ms.integrate("(Ax+a)'(Bx+b)", A_mat=J(A[ii]), a_vec=J(a[ii]), B_mat=J(B))
    elif op == "integrate_quartic":
        fa = lambda: m.integrate("(Ax+a)(Bx+b)'(Cx+c)(Dx+d)'", A_mat=J(A), a_vec=J(a), B_mat=J(B), C_mat=J(A), c_vec=J(a), D_mat=J(B))
        fb = lambda: ms.integrate("(Ax+a)(Bx+b)'(Cx+c)(Dx+d)'", A_mat=J(A[ii]), a_vec=J(a[ii]), B_mat=J(B), C_mat=J(A[ii]), c_vec=J(a[ii]), D_mat=J(B))
    elif op == "integrate_xbxx":
        fa = lambda: m.integrate("xb'xx'", b_vec=J(bv))
        fb = lambda: ms.integrate("xb'xx'", b_vec=J(bv[ii]))
    elif op == "integrate_xAxx":
        fa = lambda: m.integrate("x(A'x + a)x'", A_mat=J(bv[:, None, :]), a_vec=J(a[:, :1]))
        fb = lambda: ms.integrate("x(A'x + a)x'", A_mat=J(bv[ii][:, None, :]), a_vec=J(a[ii][:, :1]))
    elif op == "integrate_cubic_outer":
        fa = lambda: m.integrate("(Ax+a)'(Bx+b)(Cx+c)'", A_mat=J(A), a_vec=J(a), B_mat=J(A), C_mat=J(B))
        fb = lambda: ms.integrate("(Ax+a)'(Bx+b)(Cx+c)'", A_mat=J(A[ii]), a_vec=J(a[ii]), B_mat=J(A[ii]), C_mat=J(B))
    elif op == "integrate_quartic_inner":
        fa = lambda: m.integrate("(Ax+a)'(Bx+b)(Cx+c)'(Dx+d)", A_mat=J(A), a_vec=J(a), B_mat=J(A[:, ::-1]), C_mat=J(B), D_mat=J(B[::-1]))
        fb = lambda: ms.integrate("(Ax+a)'(Bx+b)(Cx+c)'(Dx+d)", A_mat=J(A[ii]), a_vec=J(a[ii]), B_mat=J(A[ii][:, ::-1]), C_mat=J(B), D_mat=J(B[::-1]))
    elif op == "integrate_cubic":
        fa = lambda: m.integrate("(Ax+a)(Bx+b)'(Cx+c)", A_mat=J(A), a_vec=J(a), B_mat=J(B), C_mat=J(B))
        fb = lambda: ms.integrate("(Ax+a)(Bx+b)'(Cx+c)", A_mat=J(A[ii]), a_vec=J(a[ii]), B_mat=J(B), C_mat=J(B))
    elif op == "get_density":
        fa, fb = (lambda: m.get_density()), (lambda: ms.get_density())
    elif op == "slice_slice":
        i2 = np.array(case["idx2"])
        comp = ii[i2]
        ok, ra, rb = objcmp.both(fails, tag, lambda: ms.slice(jnp.array(case["idx2"])), lambda: m.slice(jnp.array(comp.tolist())))
        if ok:
            objcmp.compare(fails, tag, ra, rb, kap, pts=pts)
        return fails
    elif op == "log_factor":
        f = libx.make_factor(case["fkind"], case["f"])
        fs = f if case["Rf"] == 1 else f.slice(jnp.array(idx))
        fa, fb = (lambda: m.integrate("log u(x)", factor=f)), (lambda: ms.integrate("log u(x)", factor=fs))
    elif op == "entropy":
        fa, fb = (lambda: m.entropy()), (lambda: ms.entropy())
    elif op == "kl":
        q = libx.make_measure("pdf", case["q"])
        qs = q if case["Rq"] == 1 else q.slice(jnp.array(idx))
        fa, fb = (lambda: m.kl_divergence(q)), (lambda: ms.kl_divergence(qs))
        kap *= _kap(np.asarray(case["q"]["Sigma"], float))
    elif op == "marginal":
        d = jnp.array(case["dims"])
        fa, fb = (lambda: m.get_marginal(d)), (lambda: ms.get_marginal(d))
        pts = None
    elif op == "condition_on":
        d = jnp.array(case["dims"])
        fa, fb = (lambda: m.condition_on(d)), (lambda: ms.condition_on(d))
        pts = None
    elif op == "condition_on_explicit":
        dy = list(case["dims"])
        dx = [k for k in range(D) if k not in dy][::-1]
        fa = lambda: m.condition_on_explicit(jnp.array(dy), jnp.array(dx))
        fb = lambda: ms.condition_on_explicit(jnp.array(dy), jnp.array(dx))
        pts = None
    elif op == "linear_sum":
        W, wb = np.asarray(case["W"], float), np.asarray(case["wb"], float)
        fa = lambda: m.get_density_of_linear_sum(J(W), J(wb))
        fb = lambda: ms.get_density_of_linear_sum(J(W[ii]), J(wb[ii]))
        pts = None
    else:
        raise KeyError(op)
    ok, ra, rb = objcmp.both(fails, tag, fa, fb)
    if ok:
        ok, ras = lib(fails, tag + ".slice_result", lambda: _take(ra, idx))
        if ok:
            objcmp.compare(fails, tag, ras, rb, kap, pts=pts)
    return fails


def _nontriv_idx(R, idx):
    return R >= 2 and list(idx) != list(range(R))


def _labels_idx(R, idx):
    out = []
    if any(i < 0 for i in idx):
        out.append("idx_negative")
    if len(set(i % R for i in idx)) < len(idx):
        out.append("idx_repeated")
    if len(idx) == 1:
        out.append("idx_singleton")
    return out


# ------------------------------------------------------------------------------------------ products
def _pool_p(tier):
    base = [(1, 2, 2), (2, 3, 2), (3, 2, 3), (2, 1, 4), (2, 4, 1), (4, 3, 3), (3, 5, 2), (2, 2, 6), (2, 18, 1), (2, 3, 17)]
    if tier == "thorough":
        base += [(1, 6, 1), (4, 2, 2), (3, 1, 5), (2, 3, 4), (4, 4, 2)]
    return base


def _strategy_p(shapes):
    @st.composite
    def s(draw):
        D, R1, R2 = draw(st.sampled_from(shapes))
        op = draw(st.sampled_from(["multiply", "hadamard"]))
        if op == "hadamard":
            R1, R2 = draw(st.sampled_from([(R1, R1), (R1, 1), (1, R1)]))
        mkind = draw(st.sampled_from(gen.MEASURE_KINDS))
        fkind = draw(st.sampled_from(gen.FACTOR_KINDS))
        kappa = draw(st.sampled_from([10.0, 100.0]))
        R = max(R1, R2)
        return {"D": D, "R1": R1, "R2": R2, "op": op, "mkind": mkind, "fkind": fkind, "cache": draw(st.sampled_from(gen.CACHES)),
                "update_full": draw(st.booleans()), "idx1": _idx(draw, R1), "idx2": _idx(draw, R2), "idxh": _idx(draw, R),
                "m": draw(gen.measure_params(mkind, R1, D, kappa)), "f": draw(gen.factor_params(fkind, R2, D, kappa)),
                "x": draw(gen.arr((2, D), -2, 2))}
    return s()


def _run_p(case):
    from .. import libx, objcmp
    import jax.numpy as jnp

    fails = []
    R1, R2, op = case["R1"], case["R2"], case["op"]
    ok, m = lib(fails, "construct_measure", libx.make_measure, case["mkind"], case["m"], case["cache"])
    ok2, f = lib(fails, "construct_factor", libx.make_factor, case["fkind"], case["f"])
    if not (ok and ok2):
        return fails
    Lm, _, _ = libx.measure_params_np(case["mkind"], case["m"])
    kap = _kap(Lm)
    uf = case["update_full"]
    _empty_slice(fails, f, "factor:" + case["fkind"], int(Lm.shape[-1]))
    pts = np.asarray(case["x"], float)
    tag = f"{op}[{case['fkind']}]"
    if op == "multiply":
        i1, i2 = case["idx1"], case["idx2"]
        idxp = [(a % R1) * R2 + (b % R2) for a in i1 for b in i2]
        fa = lambda: m.multiply(f, update_full=uf)
        fb = lambda: m.slice(jnp.array(i1)).multiply(f.slice(jnp.array(i2)), update_full=uf)
    else:
        ih = case["idxh"]
        idxp = ih
        fa = lambda: m.hadamard(f, update_full=uf)
        Rh = max(R1, R2)
        fb = lambda: (m.slice(jnp.array(ih)) if R1 == Rh else m).hadamard(f.slice(jnp.array(ih)) if R2 == Rh else f, update_full=uf)
    ok, ra, rb = objcmp.both(fails, tag, fa, fb)
    if ok:
        ok, ras = lib(fails, tag + ".slice_result", lambda: _take(ra, idxp))
        if ok:
            objcmp.compare(fails, tag, ras, rb, kap, pts=pts)
            ok, la, lb_ = objcmp.both(fails, tag + ".log_integral", lambda: ras.log_integral(), lambda: rb.log_integral())
            if ok:
                objcmp.compare(fails, tag + ".log_integral", la, lb_, kap, floor=1.0)
    return fails


# ------------------------------------------------------------------------------------------ conditionals
_COPS = ["condition_on_x", "set_y", "joint", "marginal", "conditional", "conditional_entropy", "mutual_information",
         "integrate_log_conditional", "integrate_log_conditional_y", "get_conditional_mu"]


def _empty_slice(fails, obj, tag, D=None):
    """A selection that picks no component (e.g. flatnonzero of an all-False mask) is an index array too: the result is a
    well-formed batch of zero components."""
    import jax.numpy as jnp

    for nm, idx in (("jax_int32", jnp.array([], dtype=jnp.int32)), ("numpy_int64", np.array([], dtype=np.int64))):
        ok, e = lib(fails, f"{tag}.slice(empty:{nm})", lambda: obj.slice(idx))
        if not ok:
            return
        if int(e.R) != 0:
            fails.append(Failure(f"{tag}.slice(empty):R", f"{tag}: slice with an empty index array has R={e.R}"))
            return
        if D is not None and hasattr(e, "evaluate_ln"):
            ok, v = lib(fails, f"{tag}.slice(empty).evaluate_ln", lambda: np.asarray(e.evaluate_ln(jnp.zeros((2, D)))))
            if ok and v.shape != (0, 2):
                fails.append(Failure(f"{tag}.slice(empty):shape", f"{tag}: evaluate_ln of an empty batch has shape {v.shape}"))


def _f64_net(c):
    """The slice-vs-batch relation is exact only if the user's own control network is: a float32 network evaluated on a batch of
    control inputs and on a slice of it may differ in the last float32 digit (different batch shapes), which is not the library's
    doing.  The single-precision-network regime is exercised by the other conditional checks."""
    if "f32_net" in c:
        c = dict(c, f32_net=False)
    return c


def _pool_c(tier):
    # (Dx, Dy, n, N)
    base = [(1, 1, 2, 2), (2, 2, 3, 2), (3, 2, 2, 1), (2, 3, 4, 2), (2, 1, 5, 1), (3, 3, 2, 3), (1, 2, 6, 1), (2, 2, 1, 2), (2, 2, 18, 1), (2, 3, 2, 20)]
    if tier == "thorough":
        base += [(4, 2, 3, 1), (2, 4, 2, 2), (1, 1, 6, 2), (3, 1, 4, 1), (1, 3, 3, 2)]
    return base


def _strategy_c(shapes):
    @st.composite
    def s(draw):
        Dx, Dy, n, N = draw(st.sampled_from(shapes))
        kind = draw(st.sampled_from(gen.COND_KINDS))
        if kind.startswith("identity"):
            Dy = Dx
        op = draw(st.sampled_from(_COPS))
        carrier = draw(st.sampled_from(["cond", "px"]))
        if op in ("condition_on_x", "set_y", "get_conditional_mu"):
            carrier = "cond"
        if op == "integrate_log_conditional_y":
            carrier = "px"
        if op == "integrate_log_conditional" and kind not in ("full", "diag"):
            carrier = "px"
        Rc, Rx = (n, 1) if carrier == "cond" else (1, n)
        kappa = draw(st.sampled_from([10.0, 100.0]))
        return {"Dx": Dx, "Dy": Dy, "Rc": Rc, "Rx": Rx, "n": n, "N": N, "kind": kind, "op": op, "carrier": carrier,
                "idx": _idx(draw, n), "c": _f64_net(draw(gen.cond_params(kind, Rc, Dx, Dy, kappa))),
                "px": draw(gen.measure_params("pdf", Rx, Dx, kappa)),
                "q": draw(gen.measure_params("pdf", n, Dx + Dy, kappa)),
                "x": draw(gen.arr((N, Dx), -2.5, 2.5)), "yn": draw(gen.arr((n, Dy), -2.5, 2.5))}
    return s()


def _slice_cond(case, c, kw, idx):
    import jax.numpy as jnp

    if case["kind"] == "nn":
        return c, {"u": kw["u"][jnp.array(idx)]}
    return c.slice(jnp.array(idx)), kw


def _run_c(case):
    from .. import libx, objcmp
    from ..libx import J
    import jax.numpy as jnp

    fails = []
    kind, op, idx, n, N = case["kind"], case["op"], case["idx"], case["n"], case["N"]
    ok, cu = lib(fails, "construct_cond", libx.make_cond, case["c"])
    ok2, px = lib(fails, "construct_px", libx.make_measure, "pdf", case["px"])
    ok3, q = lib(fails, "construct_q", libx.make_measure, "pdf", case["q"])
    if not (ok and ok2 and ok3):
        return fails
    c, kw = cu
    S = np.asarray(case["c"]["Sigma"], float)
    kap = _kap(S, np.asarray(case["px"]["Sigma"], float))
    if kind != "nn":
        _empty_slice(fails, c, "cond:" + kind)
    if case["carrier"] == "cond":
        ok, cs_ = lib(fails, f"{kind}.slice", lambda: _slice_cond(case, c, kw, idx))
        if not ok:
            return fails
        cs, kws = cs_
        pxs = px
    else:
        cs, kws = c, kw
        ok, pxs = lib(fails, "px.slice", lambda: px.slice(jnp.array(idx)))
        if not ok:
            return fails
    x = J(case["x"])
    yn = np.asarray(case["yn"], float)
    ii = np.array(idx)
    idxp = list(idx)
    tag = f"{kind}.{op}[{case['carrier']}]"
    pts = None
    if op == "condition_on_x":
        fa, fb = (lambda: c(x, **kw)), (lambda: cs(x, **kws))
        idxp = [(r % n) * N + k for r in idx for k in range(N)]
    elif op == "get_conditional_mu":
        kk = {"u": kw["u"]} if kind == "nn" else {}
        kks = {"u": kws["u"]} if kind == "nn" else {}
        fa, fb = (lambda: c.get_conditional_mu(x, **kk)), (lambda: cs.get_conditional_mu(x, **kks))
    elif op == "set_y":
        fa, fb = (lambda: c.set_y(J(yn), **kw)), (lambda: cs.set_y(J(yn[ii]), **kws))
        pts = np.asarray(case["x"], float)
    elif op == "joint":
        fa, fb = (lambda: c.affine_joint_transformation(px, **kw)), (lambda: cs.affine_joint_transformation(pxs, **kws))
    elif op == "marginal":
        fa, fb = (lambda: c.affine_marginal_transformation(px, **kw)), (lambda: cs.affine_marginal_transformation(pxs, **kws))
    elif op == "conditional":
        fa, fb = (lambda: c.affine_conditional_transformation(px, **kw)), (lambda: cs.affine_conditional_transformation(pxs, **kws))
    elif op == "conditional_entropy":
        fa, fb = (lambda: c.conditional_entropy(px, **kw)), (lambda: cs.conditional_entropy(pxs, **kws))
    elif op == "mutual_information":
        fa, fb = (lambda: c.mutual_information(px, **kw)), (lambda: cs.mutual_information(pxs, **kws))
    elif op == "integrate_log_conditional":
        # q is the batch (paired with a batched general conditional, or against a single conditional)
        qs = q.slice(jnp.array(idx))
        fa, fb = (lambda: c.integrate_log_conditional(q, **kw)), (lambda: cs.integrate_log_conditional(qs, **kws))
        kap *= _kap(np.asarray(case["q"]["Sigma"], float))
    elif op == "integrate_log_conditional_y":
        fa = lambda: c.integrate_log_conditional_y(px, y=J(yn), **kw)
        fb = lambda: cs.integrate_log_conditional_y(pxs, y=J(yn[ii]), **kws)
    else:
        raise KeyError(op)
    ok, ra, rb = objcmp.both(fails, tag, fa, fb)
    if ok:
        ok, ras = lib(fails, tag + ".slice_result", lambda: _take(ra, idxp))
        if ok:
            objcmp.compare(fails, tag, ras, rb, kap, pts=pts)
    return fails


# ------------------------------------------------------------------------------------------ update(idx, d)
def _strategy_u(shapes):
    @st.composite
    def s(draw):
        D, R = draw(st.sampled_from(shapes))
        diag = draw(st.booleans())
        k = draw(st.integers(1, R))
        uidx = list(draw(st.permutations(list(range(R))))[:k])
        neg = draw(st.lists(st.booleans(), min_size=k, max_size=k))
        uidx = [i - R if ng else i for i, ng in zip(uidx, neg)]
        kind = "diag_pdf" if diag else "pdf"
        kappa = draw(st.sampled_from([10.0, 100.0]))
        new = draw(gen.measure_params(kind, k, D, kappa))
        form = draw(st.sampled_from(["paired"] * 4 + ["broadcast_single", "repeated_index"]))
        if form == "broadcast_single" and k >= 2:
            # one replacement component written to several addressed components ("reset components 0, 3, 4 to the prior")
            new = {kk: (np.asarray(v)[:1] if isinstance(v, np.ndarray) else v) for kk, v in new.items()}
        elif form == "repeated_index" and k >= 1:
            # an index occurs twice and both writes carry the same replacement component (unambiguous result)
            uidx = uidx + [uidx[0]]
            new = {kk: (np.concatenate([np.asarray(v), np.asarray(v)[:1]]) if isinstance(v, np.ndarray) else v) for kk, v in new.items()}
        else:
            form = "paired"
        return {"D": D, "R": R, "kind": kind, "uidx": uidx, "m": draw(gen.measure_params(kind, R, D, kappa)),
                "new": new, "form": form, "x": draw(gen.arr((2, D), -2, 2))}
    return s()


def _run_u(case):
    from .. import libx
    from ..libx import J
    import jax.numpy as jnp

    fails = []
    D, R, uidx = case["D"], case["R"], case["uidx"]
    ok, p = lib(fails, "construct", libx.make_measure, case["kind"], case["m"])
    ok2, d = lib(fails, "construct_new", libx.make_measure, case["kind"], case["new"])
    if not (ok and ok2):
        return fails
    mu = np.asarray(case["m"]["mu"], float).copy()
    Sig = np.asarray(case["m"]["Sigma"], float).copy()
    mu[np.array(uidx)] = np.asarray(case["new"]["mu"], float)
    Sig[np.array(uidx)] = np.asarray(case["new"]["Sigma"], float)
    # (read-only queries before the update: anything they cache must not survive it)
    import jax
    key = jax.random.PRNGKey(len(uidx) + 7 * D + 13 * R)
    lib(fails, "pre.sample", lambda: p.sample(key, 2))
    lib(fails, "pre.get_marginal", lambda: p.get_marginal(jnp.array([D - 1])))
    lib(fails, "pre.integrate", lambda: p.integrate("xx'"))
    ok, _ = lib(fails, "update", lambda: p.update(jnp.array(uidx), d))
    if not ok:
        return fails
    x = np.asarray(case["x"], float)
    want, scale = oracle.mvn_ln(x, mu, Sig)
    kap = np.maximum(1.0, oracle.cond(Sig))[:, None]
    ok, got = lib(fails, "update.evaluate_ln", lambda: p.evaluate_ln(J(x)))
    if ok:
        check(fails, "update:evaluate_ln", got, want, scale * kap)
    check(fails, "update:mu", np.asarray(p.mu), mu, 1 + np.abs(mu))
    check(fails, "update:Sigma", np.asarray(p.Sigma), Sig, np.abs(Sig).max((1, 2))[:, None, None] * np.ones_like(Sig))
    Lam = oracle.inv_spd(Sig)
    check(fails, "update:Lambda", np.asarray(p.Lambda), Lam, np.abs(Lam).max((1, 2))[:, None, None] * kap[:, :, None] * np.ones_like(Lam))
    check(fails, "update:nu", np.asarray(p.nu), np.einsum("rij,rj->ri", Lam, mu), (1 + np.abs(Lam).max((1, 2)) * (1 + np.abs(mu).max(1)))[:, None] * kap * np.ones_like(mu))
    ok, got = lib(fails, "update.log_integral", lambda: p.log_integral())
    if ok:
        check(fails, "update:log_integral", got, np.zeros(R), (1 + np.abs(np.asarray(p.lnZ))) * kap[:, 0])
    ok, got = lib(fails, "update.integrate_x", lambda: p.integrate("x"))
    if ok:
        check(fails, "update:integrate_x", got, mu, (1 + np.abs(mu)) * kap)
    # after update() the object behaves like a fresh object built from the new parameters, for every operation
    from .. import objcmp
    ok, fresh = lib(fails, "construct_fresh", libx.make_measure, case["kind"], {"Sigma": Sig, "mu": mu})
    if ok:
        dims = [D - 1] + ([0] if D > 1 else [])
        W = np.tile(np.linspace(0.5, 1.5, D)[None, None, :], (R, 1, 1))
        ops = {
            "get_marginal": lambda o: o.get_marginal(jnp.array(dims)),
            "linear_sum": lambda o: o.get_density_of_linear_sum(J(W)),
            "entropy": lambda o: o.entropy(),
            "sample": lambda o: o.sample(key, 3),
            "integrate_xx": lambda o: o.integrate("xx'"),
            "slice": lambda o: o.slice(jnp.arange(R)[::-1]),
            "to_density": lambda o: o.get_density(),
        }
        if D > 1:
            ops["condition_on"] = lambda o: o.condition_on(jnp.array([D - 1]))
        for nm, fn in ops.items():
            okb, ra, rb = objcmp.both(fails, f"update.then_{nm}", lambda: fn(p), lambda: fn(fresh))
            if okb:
                objcmp.compare(fails, f"update:then_{nm}", ra, rb, float(np.max(kap)) * 10, pts=None)
    # update(idx, d) replaces exactly the addressed components of the object it is called on: a slice (copy) of a
    # density is an object of its own, updating it must leave the source untouched
    mu0, Sig0 = np.asarray(case["m"]["mu"], float), np.asarray(case["m"]["Sigma"], float)
    ok, src = lib(fails, "construct_src", libx.make_measure, case["kind"], case["m"])
    if ok:
        ok, q = lib(fails, "src.slice", lambda: src.slice(jnp.arange(R)))
        if ok:
            ok, _ = lib(fails, "slice.update", lambda: q.update(jnp.array(uidx), d))
            ok, got = lib(fails, "src.evaluate_ln", lambda: src.evaluate_ln(J(x)))
            if ok:
                w0, s0 = oracle.mvn_ln(x, mu0, Sig0)
                check(fails, "update:source_of_slice_changed", got, w0, s0 * np.maximum(1.0, oracle.cond(Sig0))[:, None])
    return fails


# ------------------------------------------------------------------------------------------ approximate conditionals / truncated
_AOPS = ["marginal", "joint", "conditional", "log_conditional", "log_conditional_y", "het_bound"]


def _pool_a(tier):
    # (Dx, Dy, Dk, n)
    base = [(1, 1, 1, 2), (2, 2, 2, 3), (1, 2, 2, 4), (2, 1, 1, 2), (2, 2, 1, 5), (1, 1, 2, 3)]
    if tier == "thorough":
        base += [(3, 2, 1, 3), (2, 3, 2, 2), (1, 3, 3, 6), (3, 1, 1, 4)]
    return base


def _strategy_a(shapes):
    @st.composite
    def s(draw):
        Dx, Dy, Dk, n = draw(st.sampled_from(shapes))
        fam = draw(st.sampled_from(["feature", "het", "truncated"]))
        case = {"fam": fam, "Dx": Dx, "Dy": Dy, "Dk": Dk, "n": n, "idx": _idx(draw, n)}
        if fam == "feature":
            kind = draw(st.sampled_from(gen.FEATURE_KINDS))
            case.update({"kind": kind, "op": draw(st.sampled_from(_AOPS[:5])), "c": draw(gen.feature_params(kind, Dx, Dy, Dk))})
        elif fam == "het":
            kind = draw(st.sampled_from(gen.HET_KINDS))
            case.update({"kind": kind, "op": draw(st.sampled_from(["marginal", "joint", "conditional", "het_bound"])),
                         "c": draw(gen.het_params(kind, Dx, Dy, max(Dy, Dk), Dk, wscale=draw(st.sampled_from([0.3, 1.0]))))})
        else:
            case.update({"kind": "truncated", "op": draw(st.sampled_from(["1", "x", "x**2", "x**k", "evaluate", "density_mean"])),
                         "k": draw(st.integers(0, 5)),
                         "Lambda": draw(gen.arr((n, 1, 1), 0.3, 4.0)), "nu": draw(gen.arr((n, 1), -2, 2)), "ln_beta": draw(gen.arr((n,), -1, 1)),
                         "lo": draw(gen.arr((n, 1), -2.0, 0.0)), "width": draw(gen.arr((n, 1), 0.2, 3.0)),
                         "one_sided": draw(st.sampled_from(["no", "lower", "upper"])), "xs": draw(gen.arr((3, 1), -3, 3))})
            # mixed batch: one component truncated deep in its upper tail, the others around their modes
            if draw(st.sampled_from([False, False, True])):
                k = draw(st.integers(0, n - 1))
                z = draw(gen.floats(6.8, 9.5))
                lam_k, nu_k = float(case["Lambda"][k, 0, 0]), float(case["nu"][k, 0])
                lo = np.asarray(case["lo"], float).copy()
                lo[k, 0] = nu_k / lam_k + z / np.sqrt(lam_k)
                case["lo"] = lo
                # ... while another component is truncated below its mode, and the lower limits are in force
                j = (k + 1) % n
                lo[j, 0] = float(case["nu"][j, 0]) / float(case["Lambda"][j, 0, 0]) - 0.5 / np.sqrt(float(case["Lambda"][j, 0, 0]))
                case["lo"] = lo
                case["one_sided"] = draw(st.sampled_from(["no", "lower"]))
                case["far_tail_component"] = k
                if draw(st.booleans()):
                    case["idx"] = [k] * draw(st.integers(1, 2))  # isolate the tail component from the others
                    case["op"] = draw(st.sampled_from(["density_mean", "density_mean", "x", "x**2", "x**k"]))
            return case
        case["px"] = {"Sigma": draw(gen.spd(n, Dx, kappa=6.0, lam_lo=0.2, lam_hi=0.5)), "mu": draw(gen.arr((n, Dx), -1.5, 1.5))}
        case["q"] = {"Sigma": draw(gen.spd(n, Dx + Dy, kappa=6.0, lam_lo=0.2, lam_hi=0.5)), "mu": draw(gen.arr((n, Dx + Dy), -1.5, 1.5))}
        case["yn"] = draw(gen.arr((n, Dy), -2, 2))
        return case
    return s()


def _run_a(case):
    from .. import libx, objcmp
    from ..libx import J
    import jax.numpy as jnp

    fails = []
    idx, n, op = case["idx"], case["n"], case["op"]
    ii = np.array(idx)
    if case["fam"] == "truncated":
        from gaussian_toolbox import measure
        from gaussian_toolbox.experimental import truncated_measure as tm

        Lam, nu, lb = (np.asarray(case[k], float) for k in ("Lambda", "nu", "ln_beta"))
        lo = np.asarray(case["lo"], float)
        hi = lo + np.asarray(case["width"], float)

        def build(sel):
            m = measure.GaussianMeasure(Lambda=J(Lam[sel]), nu=J(nu[sel]), ln_beta=J(lb[sel]))
            kw = {}
            if case["one_sided"] != "upper":
                kw["lower_limit"] = J(lo[sel])
            if case["one_sided"] != "lower":
                kw["upper_limit"] = J(hi[sel])
            return tm.TruncatedGaussianMeasure(measure=m, **kw)

        def run(t):
            if op == "evaluate":
                return t(J(case["xs"]))
            if op == "density_mean":
                d = t.get_density()
                return jnp.concatenate([d.get_mean(), d.get_variance()], axis=1)
            if op == "x**k":
                return t.integrate("x**k", k=case["k"])
            return t.integrate(op)

        tag = f"truncated.{op}"
        ok, ra, rb = objcmp.both(fails, tag, lambda: run(build(np.arange(n))), lambda: run(build(ii)))
        if ok:
            objcmp.compare(fails, tag, np.asarray(ra)[ii], rb, 10.0)
        return fails
    het = case["fam"] == "het"
    ok, c = lib(fails, "construct_approx", (libx.make_het if het else libx.make_feature), case["c"])
    ok2, px = lib(fails, "construct_px", libx.make_measure, "pdf", case["px"])
    ok3, q = lib(fails, "construct_q", libx.make_measure, "pdf", case["q"])
    if not (ok and ok2 and ok3):
        return fails
    pxs, qs = px.slice(jnp.array(idx)), q.slice(jnp.array(idx))
    yn = np.asarray(case["yn"], float)
    kap = _kap(np.asarray(case["px"]["Sigma"], float)) * 10
    tag = f"{'het' if het else case['kind']}.{op}"
    if op == "marginal":
        fa, fb = (lambda: c.affine_marginal_transformation(px)), (lambda: c.affine_marginal_transformation(pxs))
    elif op == "joint":
        fa, fb = (lambda: c.affine_joint_transformation(px)), (lambda: c.affine_joint_transformation(pxs))
    elif op == "conditional":
        fa, fb = (lambda: c.affine_conditional_transformation(px)), (lambda: c.affine_conditional_transformation(pxs))
    elif op == "log_conditional":
        fa, fb = (lambda: c.integrate_log_conditional(q)), (lambda: c.integrate_log_conditional(qs))
        kap = _kap(np.asarray(case["q"]["Sigma"], float)) * 10
    elif op == "log_conditional_y":
        fa, fb = (lambda: c.integrate_log_conditional_y(px, y=J(yn))), (lambda: c.integrate_log_conditional_y(pxs, y=J(yn[ii])))
    elif op == "het_bound":
        fa, fb = (lambda: c.integrate_log_conditional_y(px, J(yn))), (lambda: c.integrate_log_conditional_y(pxs, J(yn[ii])))
    else:
        raise KeyError(op)
    ok, ra, rb = objcmp.both(fails, tag, fa, fb)
    if ok:
        ok, ras = lib(fails, tag + ".slice_result", lambda: _take(ra, idx))
        if ok:
            # the variational bound stops its fixed-point iteration on a batch-wide criterion (1e-5): compared at 1e-6
            objcmp.compare(fails, tag, ras, rb, kap, tol=1e-6 if op == "het_bound" else 1e-8)
    return fails


SUBS = [
    Sub("measure_ops", _pool_m, _strategy_m, _run_m, lambda c: _nontriv_idx(c["R"], c["idx"]),
        lambda c: [f"kind={c['kind']}", f"op={c['op']}"] + _labels_idx(c["R"], c["idx"]),
        examples={"quick": 150, "thorough": 700}, shards={"quick": 8, "thorough": 14}, rule="R>=2 and idx != identity"),
    Sub("products", _pool_p, _strategy_p, _run_p, lambda c: max(c["R1"], c["R2"]) >= 2,
        lambda c: [f"op={c['op']}", f"fkind={c['fkind']}", f"mkind={c['mkind']}", f"bcast={'nn' if c['R1']==c['R2'] else ('n1' if c['R2']==1 else '1n')}"],
        examples={"quick": 120, "thorough": 600}, shards={"quick": 8, "thorough": 14}, rule="max(R1,R2)>=2"),
    Sub("conditional_ops", _pool_c, _strategy_c, _run_c, lambda c: _nontriv_idx(c["n"], c["idx"]),
        lambda c: [f"kind={c['kind']}", f"op={c['op']}", f"carrier={c['carrier']}"] + _labels_idx(c["n"], c["idx"]),
        examples={"quick": 120, "thorough": 600}, shards={"quick": 8, "thorough": 14}, rule="n>=2 and idx != identity"),
    Sub("approx_truncated", _pool_a, _strategy_a, _run_a, lambda c: _nontriv_idx(c["n"], c["idx"]),
        lambda c: [f"fam={c['fam']}", f"kind={c['kind']}", f"op={c['op']}"] + _labels_idx(c["n"], c["idx"]),
        examples={"quick": 40, "thorough": 300}, shards={"quick": 6, "thorough": 10}, rule="n>=2 and idx != identity"),
    Sub("update", _pool_m, _strategy_u, _run_u, lambda c: c["R"] >= 2,
        lambda c: [f"kind={c['kind']}", f"k={len(c['uidx'])}", "neg" if any(i < 0 for i in c["uidx"]) else "nonneg", f"form={c.get('form', 'paired')}"],
        examples={"quick": 80, "thorough": 400}, shards={"quick": 4, "thorough": 8}, rule="R>=2"),
]
