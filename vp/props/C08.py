"""C08 - marginal transformation returns p(y) = integral of p(y|x) p(x) dx."""
import numpy as np

from .. import oracle
from ..compare import Failure, check, lib
from ..sub import Sub
from . import _cond

RULE = "Non-trivial: batch combo != (1,1) or both Dx,Dy >= 2. Layout rc*Rx+rx."
BOUNDS = {"Dx,Dy": "1..4 (thorough ..5)", "batch n": "2..4", "N points": "1..3"}
ASSUMPTIONS = [
    "two independent references: moment form N(M mu + b, S + M Sigma M') and the information form of "
    "ln p(y|x)+ln p(x) assembled from the definitions and integrated over x in closed form (Schur complement) in numpy",
]


def _marg_info(Lam, nu, c, Dx):
    """Integrate exp(-z'Λz/2 + ν'z + c) over the first Dx coordinates."""
    Lxx, Lxy, Lyy = Lam[:Dx, :Dx], Lam[:Dx, Dx:], Lam[Dx:, Dx:]
    Sxx = oracle.inv_spd(Lxx[None])[0]
    Ly = Lyy - Lxy.T @ Sxx @ Lxy
    ny = nu[Dx:] - Lxy.T @ Sxx @ nu[:Dx]
    ld = oracle.slogdet_spd(Lxx[None])[0][0]
    cy = c + 0.5 * (nu[:Dx] @ Sxx @ nu[:Dx] + Dx * oracle.LN2PI - ld)
    return 0.5 * (Ly + Ly.T), ny, cy


def _run(case):
    from .. import libx
    from ..libx import J
    import jax.numpy as jnp

    fails = []
    fam = _cond.fam(case)
    M, b, S, mu, Sig = _cond.np_inputs(case)
    Dx, Dy = case["Dx"], case["Dy"]
    ok, cu = lib(fails, "construct_cond", libx.make_cond, case["c"])
    if not ok:
        return fails
    c, kw = cu
    ok, px = lib(fails, "construct_px", libx.make_measure, "pdf", case["px"])
    if not ok:
        return fails
    tag = f"marginal[{fam}]"
    ok, py = lib(fails, tag, lambda: c.affine_marginal_transformation(px, **kw))
    if not ok:
        return fails
    y = np.asarray(case["y"], float)
    R = case["Rc"] * case["Rx"]
    if int(py.R) != R or int(py.D) != Dy:
        fails.append(Failure(tag + ":shape", f"marginal has R={py.R}, D={py.D}; expected R={R}, D={Dy}"))
        return fails
    want = np.zeros((R, y.shape[0]))
    scale = np.zeros_like(want)
    want2 = np.zeros_like(want)
    scale2 = np.zeros_like(want)
    mus, Sigs = [], []
    for r, rc, rx in _cond.pairs(case):
        my = M[rc] @ mu[rx] + b[rc]
        Sy = S[rc] + M[rc] @ Sig[rx] @ M[rc].T
        Sy = 0.5 * (Sy + Sy.T)
        v, s = oracle.mvn_ln(y, my[None], Sy[None])
        want[r], scale[r] = v[0], s[0]
        mus.append(my)
        Sigs.append(Sy)
        Lj, nj, cj = _cond.joint_info(M[rc], b[rc], S[rc], mu[rx], Sig[rx])
        Ly, ny, cy = _marg_info(Lj, nj, cj, Dx)
        v2, s2 = oracle.ln_factor(Ly[None], ny[None], np.array([cy]), y)
        want2[r], scale2[r] = v2[0], s2[0] + np.abs(cj)
    Sigs = np.stack(Sigs)
    if np.any(oracle.cond(Sigs) > 1e6):
        fails.append(Failure("excluded:ill_conditioned_derived", "marginal covariance cond > 1e6"))
        return fails
    far = bool(case.get("far_mean"))
    ld, lds = oracle.slogdet_spd(Sigs)
    check(fails, tag + ":ln_det_Sigma", np.asarray(py.ln_det_Sigma), ld, lds)
    kapS = np.maximum(1.0, oracle.cond(Sigs))
    I = np.broadcast_to(np.eye(Dy), Sigs.shape)
    check(fails, tag + ":Sigma_Lambda_identity", np.einsum("rij,rjk->rik", Sigs, np.asarray(py.Lambda)), I, kapS[:, None, None] * np.ones_like(Sigs))
    ok, got = (False, None) if far else lib(fails, tag + ".evaluate_ln", lambda: py.evaluate_ln(J(y)))
    if ok:
        check(fails, tag + ":moment_form", got, want, scale)
        check(fails, tag + ":integral_over_x", got, want2, scale2 * 100)
    check(fails, tag + ":mu", np.asarray(py.mu), np.stack(mus), 1 + np.abs(np.stack(mus)))
    check(fails, tag + ":Sigma", np.asarray(py.Sigma), Sigs, np.abs(Sigs).max((1, 2))[:, None, None] * np.ones_like(Sigs))
    # equals the y-marginal of the joint transformation
    ok, j = lib(fails, f"joint[{fam}]", lambda: c.affine_joint_transformation(px, **kw))
    if ok:
        ok, jm = lib(fails, "joint.get_marginal", lambda: j.get_marginal(jnp.arange(Dx, Dx + Dy)))
        if ok:
            check(fails, tag + ":vs_joint_marginal_Sigma", np.asarray(py.Sigma), np.asarray(jm.Sigma), np.abs(Sigs).max((1, 2))[:, None, None] * np.ones_like(Sigs))
        if ok and not far:
            ok, got2 = lib(fails, "joint.get_marginal.evaluate_ln", lambda: jm.evaluate_ln(J(y)))
            if ok:
                check(fails, tag + ":vs_joint_marginal", got2, want, scale)
    return fails


SUBS = [
    Sub("marginal", _cond.pool, lambda shapes: _cond.strategy(shapes, far_mean=True), _run, _cond.nontrivial, _cond.labels,
        examples={"quick": 150, "thorough": 500}, shards={"quick": 12, "thorough": 28},
        rule="batch combo != (1,1) or Dx,Dy>=2"),
]
