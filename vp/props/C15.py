"""C15 - specialised representations agree with the general one (differential)."""
import numpy as np
from hypothesis import strategies as st

from .. import gen, oracle
from ..compare import Failure, check, lib
from ..sub import Sub

RULE = ("The same operation is run on the specialised object and on the general object built from the same parameters "
        "(ConjugateFactor(Lambda,nu,ln_beta) / GaussianMeasure / GaussianPDF / ConditionalGaussianPDF with M=I,b=0 or M(u),b(u)); "
        "non-trivial: R*D >= 2 and the specialised class overrides the operation or takes a shortcut branch (warm covariance).")
BOUNDS = {"D,Dx,Dy": "1..4", "R": "1..4", "batch combos": "(1,1),(1,n),(n,1)"}
ASSUMPTIONS = ["differential oracle: the general class is the reference; both sides are anchored against numpy by C01-C14",
               "an exception on one side only is a violation; an exception on both sides is consistent behaviour"]


# ------------------------------------------------------------------------------------------ factors
def _pool_f(tier):
    # (D, R1, R2)
    base = [(1, 1, 1), (2, 2, 2), (3, 3, 1), (2, 1, 3), (4, 2, 3), (3, 2, 2), (2, 4, 1), (4, 1, 2)]
    if tier == "thorough":
        base += [(3, 1, 4), (4, 3, 3), (1, 2, 2), (2, 3, 4), (3, 4, 2), (4, 4, 1)]
    return base


def _strategy_f(shapes):
    @st.composite
    def s(draw):
        D, R1, R2 = draw(st.sampled_from(shapes))
        fkind = draw(st.sampled_from(["rank_one", "linear", "constant"]))
        mkind = draw(st.sampled_from(gen.MEASURE_KINDS))
        op = draw(st.sampled_from(["multiply", "hadamard"]))
        if op == "hadamard":
            R2 = draw(st.sampled_from([1, R1])) if R1 > 1 else R2
        kappa = draw(st.sampled_from([10.0, 100.0]))
        return {"D": D, "R1": R1, "R2": R2, "fkind": fkind, "mkind": mkind, "op": op,
                "cache": draw(st.sampled_from(gen.CACHES)), "update_full": draw(st.booleans()),
                "m": draw(gen.measure_params(mkind, R1, D, kappa)), "f": draw(gen.factor_params(fkind, R2, D, kappa)),
                "x": draw(gen.arr((2, D), -2, 2)), "idx": draw(gen.index_array(R2, 1, 3))}
    return s()


def _run_f(case):
    from .. import libx, objcmp
    from ..libx import J
    import jax.numpy as jnp
    from gaussian_toolbox import factor

    fails = []
    fk = case["fkind"]
    Lf, nuf, lbf = libx.factor_params_np(fk, case["f"])
    ok, f = lib(fails, "construct_factor", libx.make_factor, fk, case["f"])
    ok2, g = lib(fails, "construct_general", lambda: factor.ConjugateFactor(Lambda=J(Lf), nu=J(nuf), ln_beta=J(lbf)))
    if not (ok and ok2):
        return fails
    Lm, _, _ = libx.measure_params_np(case["mkind"], case["m"])
    kap = float(np.max(np.maximum(1.0, oracle.cond(Lm))))
    x = np.asarray(case["x"], float)
    tag = f"{fk}.{case['op']}"
    # two independent copies of the measure so that cache side effects cannot leak between the sides
    ok, ma = lib(fails, "construct_measure", libx.make_measure, case["mkind"], case["m"], case["cache"])
    ok2, mb = lib(fails, "construct_measure", libx.make_measure, case["mkind"], case["m"], case["cache"])
    if not (ok and ok2):
        return fails
    uf = case["update_full"]
    ok, ra, rb = objcmp.both(fails, tag, lambda: getattr(ma, case["op"])(f, update_full=uf), lambda: getattr(mb, case["op"])(g, update_full=uf))
    if ok:
        kres = float(np.max(oracle.cond(np.asarray(rb.Lambda, float))))
        if not np.isfinite(kres) or kres > 1e6:
            fails.append(Failure("excluded:ill_conditioned_derived", tag))
            return fails
        kap = max(kap, kres)
        objcmp.compare(fails, tag, ra, rb, kap, pts=x)
        ok, la, lb_ = objcmp.both(fails, tag + ".log_integral", lambda: ra.log_integral(), lambda: rb.log_integral())
        if ok:
            objcmp.compare(fails, tag + ".log_integral", la, lb_, kap, floor=1.0)
            # after the query both sides carry full covariance information
            objcmp.compare(fails, tag + ".after_query", ra, rb, kap)
    ok, ra, rb = objcmp.both(fails, f"{fk}.log_factor", lambda: ma.integrate("log u(x)", factor=f), lambda: mb.integrate("log u(x)", factor=g))
    if ok:
        objcmp.compare(fails, f"{fk}.log_factor", ra, rb, kap)
    idx = jnp.array(case["idx"])
    ok, ra, rb = objcmp.both(fails, f"{fk}.slice", lambda: f.slice(idx), lambda: g.slice(idx))
    if ok:
        objcmp.compare(fails, f"{fk}.slice", ra, rb, 1.0, pts=x, attrs=["Lambda", "nu", "ln_beta"])
    ok, ra, rb = objcmp.both(fails, f"{fk}.product", lambda: f.product(), lambda: g.product())
    if ok:
        objcmp.compare(fails, f"{fk}.product", ra, rb, 1.0, pts=x, attrs=["Lambda", "nu", "ln_beta"])
    ok, ra, rb = objcmp.both(fails, f"{fk}.evaluate", lambda: f(J(x)), lambda: g(J(x)))
    if ok:
        objcmp.compare(fails, f"{fk}.evaluate", ra, rb, 1.0)
    return fails


def _labels_f(case):
    return [f"fkind={case['fkind']}", f"op={case['op']}", f"cache={case['cache']}", f"update_full={case['update_full']}", f"mkind={case['mkind']}",
            "fast_path" if case["cache"] != "cold" or case["mkind"].endswith("pdf") else "cold"]


# ------------------------------------------------------------------------------------------ diagonal measures / densities
def _pool_d(tier):
    base = [(1, 1), (2, 2), (3, 3), (4, 2), (2, 4), (3, 1), (24, 2), (48, 1)]
    if tier == "thorough":
        base += [(4, 4), (1, 3), (4, 1), (2, 3), (32, 1), (64, 2)]
    return base


_DOPS_M = ["log_integral", "integrate_x", "integrate_xx", "integrate_quad", "integrate_quartic", "multiply", "hadamard", "slice", "product", "get_density"]
_DOPS_P = _DOPS_M + ["entropy", "kl", "marginal", "condition_on", "linear_sum", "sample", "update"]


def _strategy_d(shapes):
    @st.composite
    def s(draw):
        D, R = draw(st.sampled_from(shapes))
        is_pdf = draw(st.booleans())
        op = draw(st.sampled_from(_DOPS_P if is_pdf else _DOPS_M))
        kappa = draw(st.sampled_from([10.0, 100.0]))
        kind = "diag_pdf" if is_pdf else "diag_measure"
        case = {"D": D, "R": R, "kind": kind, "op": op, "cache": draw(st.sampled_from(gen.CACHES)),
                # high-dimensional cases: overall scales down to standard deviations of 1e+-8 (determinants leave the float64
                # range, their logarithms do not)
                "m": draw(gen.measure_params(kind, R, D, kappa, extreme="wide" if D >= 17 else False)), "x": draw(gen.arr((2, D), -2, 2)),
                "A": draw(gen.arr((R, 2, D))), "a": draw(gen.arr((R, 2))), "B": draw(gen.arr((2, D))),
                "idx": draw(gen.index_array(R, 1, 3)), "key": draw(st.integers(0, 2**31 - 1))}
        if op in ("multiply", "hadamard"):
            fk = draw(st.sampled_from(gen.FACTOR_KINDS))
            case["fkind"] = fk
            case["f"] = draw(gen.factor_params(fk, R if op == "hadamard" else draw(st.integers(1, 2)), D, kappa))
            case["update_full"] = draw(st.booleans())
        if op == "kl":
            case["q"] = draw(gen.measure_params("diag_pdf", draw(st.sampled_from([1, R])), D, kappa))
        if op in ("marginal", "condition_on"):
            case["dims"] = draw(gen.perm_prefix(D, 1, D - 1 if (op == "condition_on" and D > 1) else D))
        if op == "linear_sum":
            K = draw(st.integers(1, D))
            case["W"] = draw(gen.spd(R, D, kappa=20.0, lam_lo=0.5, lam_hi=2.0))[:, :K, :]
        if op == "update":
            k = draw(st.integers(1, R))
            case["uidx"] = list(draw(st.permutations(list(range(R))))[:k])
            case["new"] = draw(gen.measure_params("diag_pdf", k, D, kappa))
        return case
    return s()


def _run_d(case):
    from .. import libx, objcmp
    from ..libx import J
    import jax
    import jax.numpy as jnp
    from gaussian_toolbox import pdf

    fails = []
    D, R, op = case["D"], case["R"], case["op"]
    kind = case["kind"]
    gkind = "pdf" if kind == "diag_pdf" else "measure"
    if op == "condition_on" and D < 2:
        return fails
    ok, a = lib(fails, "construct_diag", libx.make_measure, kind, case["m"], case["cache"])
    ok2, b = lib(fails, "construct_general", libx.make_measure, gkind, case["m"], case["cache"])
    if not (ok and ok2):
        return fails
    Lm, _, _ = libx.measure_params_np(kind, case["m"])
    kap = float(np.max(np.maximum(1.0, oracle.cond(Lm))))
    x = np.asarray(case["x"], float)
    tag = f"{kind}.{op}"
    A, av, B = J(case["A"]), J(case["a"]), J(case["B"])
    idx = jnp.array(case["idx"])
    pts = x
    if op in ("multiply", "hadamard"):
        f = libx.make_factor(case["fkind"], case["f"])
        fn = lambda o: getattr(o, op)(f, update_full=case["update_full"])
    elif op == "kl":
        qa = libx.make_measure("diag_pdf", case["q"])
        qb = libx.make_measure("pdf", case["q"])
    fns = {
        "log_integral": lambda o: o.log_integral(),
        "integrate_x": lambda o: o.integrate("x"),
        "integrate_xx": lambda o: o.integrate("xx'"),
        "integrate_quad": lambda o: o.integrate("(Ax+a)(Bx+b)'", A_mat=A, a_vec=av, B_mat=B),
        "integrate_quartic": lambda o: o.integrate("(Ax+a)'(Bx+b)(Cx+c)'(Dx+d)", A_mat=A, a_vec=av, B_mat=B, C_mat=B, D_mat=A),
        "slice": lambda o: o.slice(idx),
        "product": lambda o: o.product(),
        "get_density": lambda o: o.get_density(),
        "entropy": lambda o: o.entropy(),
        "marginal": lambda o: o.get_marginal(jnp.array(case.get("dims", [0]))),
        "condition_on": lambda o: o.condition_on(jnp.array(case.get("dims", [0]))),
        "linear_sum": lambda o: o.get_density_of_linear_sum(J(case.get("W", np.zeros((R, 1, D))))),
        "sample": lambda o: o.sample(jax.random.PRNGKey(case["key"]), 3),
    }
    if op in ("multiply", "hadamard"):
        fa, fb = (lambda: fn(a)), (lambda: fn(b))
    elif op == "kl":
        fa, fb = (lambda: a.kl_divergence(qa)), (lambda: b.kl_divergence(qb))
    elif op == "update":
        na = libx.make_measure("diag_pdf", case["new"])
        nb = libx.make_measure("pdf", case["new"])
        ui = jnp.array(case["uidx"])

        def fa():
            a.update(ui, na)
            return a

        def fb():
            b.update(ui, nb)
            return b
    else:
        fa, fb = (lambda: fns[op](a)), (lambda: fns[op](b))
    if op in ("marginal", "linear_sum"):
        pts = None
    if op == "condition_on":
        pts = None
    ok, ra, rb = objcmp.both(fails, tag, fa, fb)
    if ok:
        objcmp.compare(fails, tag, ra, rb, kap, pts=pts)
        if op in ("multiply", "hadamard", "product", "slice"):
            ok, la, lb_ = objcmp.both(fails, tag + ".log_integral", lambda: ra.log_integral(), lambda: rb.log_integral())
            if ok:
                objcmp.compare(fails, tag + ".log_integral", la, lb_, kap, floor=1.0)
    return fails


def _labels_d(case):
    return [f"kind={case['kind']}", f"op={case['op']}", f"cache={case['cache']}", "D>=17" if case["D"] >= 17 else "D<=4"]


# ------------------------------------------------------------------------------------------ conditionals
_COPS = ["condition_on_x", "set_y", "joint", "marginal", "conditional", "conditional_entropy", "mutual_information",
         "integrate_log_conditional", "integrate_log_conditional_y", "slice", "update_Sigma", "get_conditional_mu"]


def _strategy_c(shapes):
    @st.composite
    def s(draw):
        Dx, Dy, Rc, Rx, N = draw(st.sampled_from(shapes))
        kind = draw(st.sampled_from(["diag", "identity", "identity_diag", "nn"]))
        if kind.startswith("identity"):
            Dy = Dx
        op = draw(st.sampled_from(_COPS))
        if op in ("integrate_log_conditional", "integrate_log_conditional_y"):
            Rc = 1
        kappa = draw(st.sampled_from([10.0, 100.0]))
        No = N if Rc == 1 else Rc
        return {"Dx": Dx, "Dy": Dy, "Rc": Rc, "Rx": Rx, "N": N, "kind": kind, "op": op,
                "c": draw(gen.cond_params(kind, Rc, Dx, Dy, kappa)),
                "px": draw(gen.measure_params("pdf", Rx, Dx, kappa)),
                "q": draw(gen.measure_params("pdf", draw(st.integers(1, 2)), Dx + Dy, kappa)),
                "x": draw(gen.arr((N, Dx), -2.5, 2.5)), "y": draw(gen.arr((No, Dy), -2.5, 2.5)),
                "idx": draw(gen.index_array(Rc, 1, 3)),
                "Snew": draw(gen.spd(Rc if kind != "nn" else 1, Dy, kappa=kappa, diag=kind in ("diag", "identity_diag")))}
    return s()


def _run_c(case):
    from .. import libx, objcmp
    from ..libx import J
    import jax.numpy as jnp
    from gaussian_toolbox import conditional

    fails = []
    kind, op = case["kind"], case["op"]
    M, b, S = gen.cond_np(case["c"])
    ok, cu = lib(fails, "construct_cond", libx.make_cond, case["c"])
    ok2, g = lib(fails, "construct_general", lambda: conditional.ConditionalGaussianPDF(M=J(M), b=J(b), Sigma=J(S)))
    if not (ok and ok2):
        return fails
    c, kw = cu
    ok, px = lib(fails, "construct_px", libx.make_measure, "pdf", case["px"])
    ok2, q = lib(fails, "construct_q", libx.make_measure, "pdf", case["q"])
    if not (ok and ok2):
        return fails
    if kind == "nn" and op in ("slice", "update_Sigma"):
        return fails  # the NN-control class has no such operation with the control fixed
    if kind == "nn" and op == "get_conditional_mu":
        kwm = {"u": kw["u"]}
    else:
        kwm = kw
    Sp = np.asarray(case["px"]["Sigma"], float)
    kap = float(np.max(np.maximum(1.0, oracle.cond(S))) * np.max(np.maximum(1.0, oracle.cond(Sp))))
    x, y = J(case["x"]), J(case["y"])
    idx = jnp.array(case["idx"])
    Snew = J(case["Snew"])
    tag = f"{kind}.{op}"
    # paired convention: one y per prior component when p(x) is a batch
    yy = J(np.resize(np.asarray(case["y"], float), (case["Rx"], case["Dy"]))) if case["Rx"] > 1 else y

    def upd(o):
        o.update_Sigma(Snew)
        return o

    fns = {
        "condition_on_x": lambda o, k: o(x, **k),
        "set_y": lambda o, k: o.set_y(y, **k),
        "joint": lambda o, k: o.affine_joint_transformation(px, **k),
        "marginal": lambda o, k: o.affine_marginal_transformation(px, **k),
        "conditional": lambda o, k: o.affine_conditional_transformation(px, **k),
        "conditional_entropy": lambda o, k: o.conditional_entropy(px, **k),
        "mutual_information": lambda o, k: o.mutual_information(px, **k),
        "integrate_log_conditional": lambda o, k: o.integrate_log_conditional(q, **k),
        "integrate_log_conditional_y": lambda o, k: o.integrate_log_conditional_y(px, y=yy, **k),
        "slice": lambda o, k: o.slice(idx),
        "update_Sigma": lambda o, k: upd(o),
        "get_conditional_mu": lambda o, k: o.get_conditional_mu(x, **k),
    }
    ok, ra, rb = objcmp.both(fails, tag, lambda: fns[op](c, kwm), lambda: fns[op](g, {}))
    if ok:
        pts = None
        if op in ("set_y",):
            pts = np.asarray(case["x"], float)
        objcmp.compare(fails, tag, ra, rb, kap, pts=pts)
        if op == "update_Sigma":
            ok, ja, jb = objcmp.both(fails, tag + ".then_marginal", lambda: ra.affine_marginal_transformation(px), lambda: rb.affine_marginal_transformation(px))
            if ok:
                objcmp.compare(fails, tag + ".then_marginal", ja, jb, kap)
    return fails


def _labels_c(case):
    combo = "(1,1)" if case["Rc"] == 1 and case["Rx"] == 1 else ("(1,n)" if case["Rc"] == 1 else "(n,1)")
    return [f"kind={case['kind']}", f"op={case['op']}", f"combo={combo}"]


def _pool_c(tier):
    from . import _cond

    return [p for p in _cond.pool(tier) if p[0] <= 4 and p[1] <= 4]


SUBS = [
    Sub("factors", _pool_f, _strategy_f, _run_f, lambda c: c["R1"] * c["R2"] * c["D"] >= 2, _labels_f,
        examples={"quick": 120, "thorough": 600}, shards={"quick": 8, "thorough": 14}, rule="R*D>=2; fast path = measure has cached covariance"),
    Sub("diagonal", _pool_d, _strategy_d, _run_d, lambda c: c["R"] * c["D"] >= 2, _labels_d,
        examples={"quick": 150, "thorough": 700}, shards={"quick": 6, "thorough": 10}, rule="R*D>=2"),
    Sub("conditionals", _pool_c, _strategy_c, _run_c, lambda c: c["Rc"] * c["Rx"] >= 2 or c["Dx"] * c["Dy"] >= 2, _labels_c,
        examples={"quick": 120, "thorough": 600}, shards={"quick": 12, "thorough": 24}, rule="batched or Dx*Dy>=2"),
]
