"""C17 - heteroscedastic conditionals: coherent p(y|x) and valid lower bounds."""
import math

import numpy as np
from hypothesis import strategies as st

from .. import gen, oracle
from ..compare import Failure, check, lib
from ..sub import Sub

RULE = ("Non-trivial: weight scale >= 0.1 with |E h| <= 3 sd(h) for some unit (the bound is not trivially tight); the class histogram "
        "reports Da=Dy vs Da>Dy and the link.")
BOUNDS = {"Dx": "1..3", "Dy": "1..3", "Da": "Dy..Dy+1", "Dk": "1..2", "N paired": "1..3", "weight scale": "{0.1, 0.5, 1.0}"}
ASSUMPTIONS = [
    "true E_p(x) ln p(y|x): Dx=1 -> piecewise adaptive scipy quad over x with breaks at -w0/w; Dx>=2 with one noise unit -> exact "
    "reduction to a 1-D integral over h=w'x+w0 (x|h is Gaussian) with a break at h=0; Dx=2 with two units (smooth links) -> tensor "
    "Gauss-Hermite at 40 and 56 nodes per dimension (unconverged cases excluded)",
    "ln p(y|x) itself uses the covariance AA' + A_k diag(link(h)) A_k' inverted by numpy (not the library's precision)",
    "inequality judged with 1e-7*max(1,|truth|) slack; tightness by the decay ratio gap(eps/10) <= gap(eps)/30 + 1e-7*max(1,|truth|)",
]


def _link(kind, h):
    from ..libx import het_link

    return het_link(kind, np.asarray(h, float))


def _gauss_terms(kind, A, Dk, hrows, E, extra_cov=None):
    """For each row n: quad_n = e_n' S_n^-1 e_n (+ tr(S_n^-1 C) if extra_cov), logdet_n = ln det S_n with
    S_n = AA' + A_k diag(link(h_n)) A_k'.  Evaluated through the symmetric Woodbury / determinant-lemma form
    S^-1 = L - L A_k B (I + B K B)^-1 B A_k' L, B = diag(link)^(1/2), K = A_k' L A_k, L = (AA')^-1,
    which stays accurate when link(h) spans many orders of magnitude (exp link in the tails)."""
    AAt = A @ A.T
    L = oracle.inv_spd(AAt[None])[0]
    ld0 = oracle.slogdet_spd(AAt[None])[0][0]
    Ak = A[:, :Dk]
    K = Ak.T @ L @ Ak
    LAk = L @ Ak
    Dl = np.maximum(_link(kind, hrows), 0.0)
    quad = np.zeros(len(hrows))
    logdet = np.zeros(len(hrows))
    for n in range(len(hrows)):
        Bd = np.sqrt(Dl[n])
        G = np.eye(Dk) + (Bd[:, None] * K) * Bd[None, :]
        Lg = np.linalg.cholesky(G)
        e = E[n]
        u = Bd * (LAk.T @ e)
        z = np.linalg.solve(Lg, u)
        quad[n] = e @ L @ e - z @ z
        if extra_cov is not None:
            U = Bd[:, None] * (LAk.T @ extra_cov @ LAk) * Bd[None, :]
            Z = np.linalg.solve(Lg, np.linalg.solve(Lg, U).T)
            quad[n] += np.trace(L @ extra_cov) - np.trace(Z)
        logdet[n] = ld0 + 2.0 * np.sum(np.log(np.diag(Lg)))
    return quad, logdet


def _ln_pyx(kind, M, b, A, W, y, X):
    """ln N(y; M x + b, AA' + A_k diag(link(Wx+w0)) A_k') for rows of X."""
    Dk = W.shape[0]
    h = X @ W[:, 1:].T + W[:, 0]
    E = y[None] - (X @ M.T + b[None])
    quad, logdet = _gauss_terms(kind, A, Dk, h, E)
    return -0.5 * (quad + logdet + len(y) * oracle.LN2PI)


def _quad_pieces(f, lo, hi, pts):
    from scipy import integrate

    pts = sorted(p for p in pts if lo < p < hi)
    edges = [lo] + pts + [hi]
    tot, err = 0.0, 0.0
    for a, c in zip(edges[:-1], edges[1:]):
        v, e = integrate.quad(f, a, c, epsabs=0.0, epsrel=1e-12, limit=300)
        tot += v
        err += e
    return tot, err


def truth(kind, M, b, A, W, y, mu, Sig):
    """E_{N(mu,Sig)} ln p(y|x); returns (value, error estimate, abs-scale) or None if no oracle applies."""
    Dx, Dk = mu.shape[0], W.shape[0]
    if Dx == 1:
        s = math.sqrt(Sig[0, 0])
        brk = [-W[k, 0] / W[k, 1] for k in range(Dk) if abs(W[k, 1]) > 1e-12]
        f = lambda t: float(_ln_pyx(kind, M, b, A, W, y, np.array([[t]]))[0]) * math.exp(-0.5 * ((t - mu[0]) / s) ** 2) / (s * math.sqrt(2 * math.pi))
        v, e = _quad_pieces(f, mu[0] - 9 * s, mu[0] + 9 * s, brk + [mu[0] - 3 * s, mu[0], mu[0] + 3 * s])
        return v, e
    if Dk == 1:
        w, w0 = W[0, 1:], W[0, 0]
        V = float(w @ Sig @ w)
        if V < 1e-24:
            return None
        mh = float(w @ mu + w0)
        c = Sig @ w  # Cov(x, h)
        Sxh = Sig - np.outer(c, c) / V
        Ak = A[:, :1]
        AAt = A @ A.T
        MSM = M @ Sxh @ M.T
        Dy = len(y)

        def g(hv):
            e = y - b - M @ (mu + c * (hv - mh) / V)
            quad, logdet = _gauss_terms(kind, A, 1, np.array([[hv]]), e[None], extra_cov=MSM)
            return -0.5 * (quad[0] + logdet[0] + Dy * oracle.LN2PI)

        s = math.sqrt(V)
        f = lambda hv: g(hv) * math.exp(-0.5 * ((hv - mh) / s) ** 2) / (s * math.sqrt(2 * math.pi))
        v, e = _quad_pieces(f, mh - 9 * s, mh + 9 * s, [0.0, mh - 3 * s, mh, mh + 3 * s])
        return v, e
    if Dx == 2 and kind in ("exp", "cosh"):
        vals = []
        for nq in (40, 56):
            X, wq = oracle.gauss_hermite_nd(mu, Sig, nq)
            vals.append(float(wq @ _ln_pyx(kind, M, b, A, W, y, X)))
        return vals[1], abs(vals[1] - vals[0])
    return None


def _pool(tier):
    # (Dx, Dy, Da, Dk, N)
    base = [(1, 1, 1, 1, 1), (1, 2, 2, 2, 2), (2, 2, 2, 1, 1), (1, 2, 3, 2, 1), (3, 1, 1, 1, 2), (2, 1, 2, 1, 1), (1, 3, 3, 2, 3), (2, 2, 2, 2, 1)]
    if tier == "thorough":
        base += [(3, 2, 2, 1, 1), (1, 1, 2, 2, 2), (2, 3, 3, 1, 2), (1, 3, 4, 1, 1), (2, 2, 3, 2, 1), (3, 3, 3, 1, 3)]
    return base


def _strategy(mode):
    def make(shapes):
        @st.composite
        def s(draw):
            Dx, Dy, Da, Dk, N = draw(st.sampled_from(shapes))
            kind = draw(st.sampled_from(gen.HET_KINDS))
            ws = draw(st.sampled_from([0.1, 0.5, 1.0]))
            if mode == "tight":
                N = 1
            # class mixture: an exactly diagonal p(x) handed over as a GaussianDiagPDF (a fifth of the cases with Dx >= 2)
            px_diag = Dx >= 2 and mode != "coherence" and draw(st.sampled_from([False] * 4 + [True]))
            case = {"Dx": Dx, "Dy": Dy, "Da": Da, "Dk": Dk, "N": N, "kind": kind, "mode": mode, "px_diag": px_diag,
                    "c": draw(gen.het_params(kind, Dx, Dy, Da, Dk, wscale=1.0 if mode == "tight" else ws, big_offsets=(mode != "coherence"))),
                    "px": {"Sigma": draw(gen.spd(N, Dx, kappa=8.0, lam_lo=0.2, lam_hi=0.5, diag=px_diag)), "mu": draw(gen.arr((N, Dx), -1.5, 1.5))},
                    "y": draw(gen.arr((N, Dy), -2.5, 2.5)), "x": draw(gen.arr((3, Dx), -2, 2))}
            return case
        return s()
    return make


def _params(case):
    p = case["c"]
    M, b, A, W = (np.asarray(p[k], float) for k in ("M", "b", "A", "W"))
    return M[0], b[0], A[0], W


def _kf(case):
    return {"kf_het_da": True} if case["Da"] > case["Dy"] else {}


def _degenerate(case, n):
    """step / ReLU classes, Dx > 1: is g_i = a_i'(y - Mx - b) a deterministic function of h_i = w_i'x + w_i0 under p(x)_n
    for some unit i (a_i'M parallel to w_i, including M = 0)?  (listed finding KF-HET-DEGENERATE)"""
    if case["kind"] not in ("heaviside", "relu") or case["Dx"] < 2:
        return False
    M, b, A, W = _params(case)
    Sig = np.asarray(case["px"]["Sigma"], float)[n]
    Dk = W.shape[0]
    L = oracle.inv_spd((A @ A.T)[None])[0]
    Ainv = L @ A[:, :Dk]  # columns a_i
    for i in range(Dk):
        g = -(Ainv[:, i] @ M)
        w = W[i, 1:]
        vg, vh, c = g @ Sig @ g, w @ Sig @ w, g @ Sig @ w
        if vg * vh - c * c <= 1e-10 * max(vg * vh, 1e-300) or vg <= 1e-20:
            return True
    return False


def _run_coherence(case):
    from .. import libx
    from ..libx import J

    fails = []
    kind, Dk = case["kind"], case["Dk"]
    M, b, A, W = _params(case)
    ok, c = lib(fails, "construct_het", libx.make_het, case["c"])
    if not ok:
        return fails
    x = np.asarray(case["x"], float)
    h = x @ W[:, 1:].T + W[:, 0]
    Sx = (A @ A.T)[None] + np.einsum("ik,nk,jk->nij", A[:, :Dk], _link(kind, h), A[:, :Dk])
    ok, d = lib(fails, f"het[{kind}].cond(x)", lambda: c(J(x)))
    if not ok:
        return fails
    kf = _kf(case)
    kap = np.maximum(1.0, oracle.cond(Sx))
    check(fails, f"het[{kind}]:mean", np.asarray(d.mu), x @ M.T + b, 1 + np.abs(M).sum(1)[None] * (1 + np.abs(x).max()))
    check(fails, f"het[{kind}]:covariance", np.asarray(d.Sigma), Sx, np.abs(Sx).max((1, 2))[:, None, None] * np.ones_like(Sx))
    Li = oracle.inv_spd(Sx)
    check(fails, f"het[{kind}]:precision", np.asarray(d.Lambda), Li, (np.abs(Li).max((1, 2)) * kap)[:, None, None] * np.ones_like(Li), **kf)
    ld, lds = oracle.slogdet_spd(Sx)
    check(fails, f"het[{kind}]:ln_det_Sigma", np.asarray(d.ln_det_Sigma), ld, lds * kap, **kf)
    y = np.asarray(case["y"], float)[:1]
    want, sc = oracle.mvn_ln(y, x @ M.T + b, Sx)
    ok, got = lib(fails, f"het[{kind}].cond(x).evaluate_ln", lambda: d.evaluate_ln(J(y)))
    if ok:
        check(fails, f"het[{kind}]:density", got, want, sc * kap[:, None], **kf)
    return fails


def _lb(c, case, W=None):
    from .. import libx
    from ..libx import J

    px = libx.make_measure("diag_pdf" if case.get("px_diag") else "pdf", case["px"])
    return np.asarray(c.integrate_log_conditional_y(px, y=J(case["y"])), float).reshape(-1)


def _run_bound(case):
    from .. import libx

    fails = []
    kind, N = case["kind"], case["N"]
    M, b, A, W = _params(case)
    mus, Sigs = np.asarray(case["px"]["mu"], float), np.asarray(case["px"]["Sigma"], float)
    y = np.asarray(case["y"], float)
    kf = _kf(case)
    ok, c = lib(fails, "construct_het", libx.make_het, case["c"])
    if not ok:
        return fails
    ok, lb = lib(fails, f"bound[{kind}]", lambda: _lb(c, case))
    if not ok:
        for f in fails:
            f.update(kf)
        return fails
    if lb.shape != (N,):
        fails.append(Failure(f"bound[{kind}]:shape", f"bound has shape {lb.shape}, expected {(N,)}", **kf))
        return fails
    # long paired batches (block-wise evaluation): the first, a middle and the last rows are judged against the oracle
    rows = range(N) if N <= 8 else sorted({0, 1, N // 2, N - 3, N - 2, N - 1})
    for n in rows:
        t = truth(kind, M, b, A, W, y[n], mus[n], Sigs[n])
        if t is None:
            fails.append(Failure("excluded:no_oracle", "Dk=2 with Dx>=2 and a non-smooth link"))
            continue
        tv, te = t
        slack = 1e-7 * max(1.0, abs(tv))
        if te > 0.1 * slack:
            fails.append(Failure("excluded:oracle_unconverged", f"quadrature error {te:.2e}"))
            continue
        if not np.isfinite(lb[n]):
            kd = {"kf_het_degenerate": True} if _degenerate(case, n) else {}
            fails.append(Failure(f"bound[{kind}]:nonfinite", f"bound is {lb[n]}", **kf, **kd))
            continue
        gap = tv - lb[n]
        if kind == "heaviside":
            if abs(gap) > slack:
                fails.append(Failure(f"bound[{kind}]:step_not_exact", f"step link: value {lb[n]!r} differs from the true expectation {tv!r} by {gap:.3e}", gap=gap, **kf))
        elif gap < -slack:
            fails.append(Failure(f"bound[{kind}]:exceeds_truth", f"{kind}: returned {lb[n]!r} exceeds the true expectation {tv!r} by {-gap:.3e}", gap=gap, **kf))
    return fails


def _run_tight(case):
    """gap(eps) for input weights scaled by eps: quadratic decay, and exactly zero at zero weights (exp, cosh-1)."""
    from .. import libx

    fails = []
    kind = case["kind"]
    M, b, A, W0 = _params(case)
    mu, Sig = np.asarray(case["px"]["mu"], float)[0], np.asarray(case["px"]["Sigma"], float)[0]
    y = np.asarray(case["y"], float)[0]
    kf = _kf(case)
    if kind == "heaviside":
        return fails  # exactness is judged by the bound sub-check

    def gap_at(eps):
        W = W0.copy()
        W[:, 1:] = W[:, 1:] * eps
        p = dict(case["c"])
        p["W"] = W
        c = libx.make_het(p)
        lbv = _lb(c, case)[0]
        t = truth(kind, M, b, A, W, y, mu, Sig)
        return lbv, t

    if kind in ("exp", "cosh"):
        # zero weights: homoscedastic model with noise link(w0); the bound must be exact
        ok, r = lib(fails, f"tight[{kind}].zero_weights", lambda: gap_at(0.0))
        if ok:
            lbv, _ = r
            Dk = W0.shape[0]
            e = y - M @ mu - b
            # (Woodbury-stable evaluation: the noise of a unit with a large offset spans many orders of magnitude)
            quad, logdet = _gauss_terms(kind, A, Dk, W0[:, 0][None], e[None], extra_cov=M @ Sig @ M.T)
            tv = -0.5 * (quad[0] + logdet[0] + len(y) * oracle.LN2PI)
            check(fails, f"tight[{kind}]:zero_weight_gap", lbv, tv, 1.0 + abs(tv), tol=1e-7, **kf)
    gaps, tmag = {}, 1.0
    for eps in (1e-1, 1e-2, 1e-3):
        ok, r = lib(fails, f"tight[{kind}].eps", lambda: gap_at(eps))
        if not ok:
            for f in fails:
                f.update(kf)
            return fails
        lbv, t = r
        if t is None:
            fails.append(Failure("excluded:no_oracle", "tightness needs an oracle"))
            return fails
        if t[1] > 1e-10 * max(1.0, abs(t[0])):
            fails.append(Failure("excluded:oracle_unconverged", f"quadrature error {t[1]:.2e}"))
            return fails
        gaps[eps] = t[0] - lbv
        tmag = max(tmag, abs(t[0]))
    for eps in (1e-1, 1e-2):
        g1, g2 = gaps[eps], gaps[eps / 10]
        if kind == "relu":
            # the quadratic regime of the rectified-linear link starts once the kink h=0 has left the mass of p(h):
            # pairs whose larger weight scale still has the kink within 4 sd(h) are not judged (counted)
            mh = W0[:, 1:] @ mu * eps + W0[:, 0]
            sh = eps * np.sqrt(np.einsum("ki,ij,kj->k", W0[:, 1:], Sig, W0[:, 1:]))
            if np.any(np.abs(mh) < 4 * sh):
                fails.append(Failure("excluded:relu_kink_in_mass", f"eps={eps}"))
                continue
            # ... and only while the link argument still has a resolvable spread at the SMALLER weight scale: with sd(h) below
            # 1e-4 |E h| (a strongly biased unit, |w0| ~ 30, with weights scaled down to 1e-5) the bound's own arithmetic sits at
            # a noise floor of ~1e-6 of the value, above the decay being measured (counted, not judged)
            sh_small = sh / 10.0
            if np.any(sh_small < 1e-4 * np.maximum(1.0, np.abs(W0[:, 0]))):
                fails.append(Failure("excluded:relu_spread_unresolvable", f"eps={eps}"))
                continue
        # slack 1e-7 relative to the size of the value (as in the bound sub-check): bound and truth are each accurate to
        # ~1e-8 of their magnitude, and the variational parameters come from a fixed-point iteration stopped at 1e-5
        if g2 > max(g1, 0.0) / 30.0 + 1e-7 * tmag:
            fails.append(Failure(f"tight[{kind}]:decay", f"{kind}: gap({eps/10:g})={g2:.3e} is not <= gap({eps:g})/30={g1/30:.3e}", gaps={str(k): v for k, v in gaps.items()}, **kf))
    return fails


def _overlap(case):
    _, _, _, W = _params(case)
    mus, Sigs = np.asarray(case["px"]["mu"], float), np.asarray(case["px"]["Sigma"], float)
    for r in range(mus.shape[0]):
        mh = W[:, 1:] @ mus[r] + W[:, 0]
        sh = np.sqrt(np.einsum("ki,ij,kj->k", W[:, 1:], Sigs[r], W[:, 1:]))
        if np.any(np.abs(mh) <= 3 * sh):
            return True
    return False


def _labels(case):
    return [f"kind={case['kind']}", "Da>Dy" if case["Da"] > case["Dy"] else "Da=Dy", f"Dx={case['Dx']}", f"Dk={case['Dk']}", f"wscale={case['c']['wscale']}", "px=diag_class" if case.get("px_diag") else "px=full_class"]


SUBS = [
    Sub("coherence", _pool, _strategy("coherence"), _run_coherence, lambda c: c["Dy"] >= 2 or c["Dk"] >= 2, _labels,
        examples={"quick": 120, "thorough": 600}, shards={"quick": 4, "thorough": 8}, rule="Dy>=2 or Dk>=2"),
    Sub("bound", _pool, _strategy("bound"), _run_bound, _overlap, _labels,
        examples={"quick": 14, "thorough": 90}, shards={"quick": 16, "thorough": 28}, rule="some unit with |E h| <= 3 sd(h)"),
    Sub("long_batch", lambda tier: [(1, 1, 1, 1, 600), (1, 2, 2, 1, 1100), (2, 1, 1, 1, 700)] + ([(1, 1, 2, 2, 2100)] if tier == "thorough" else []),
        _strategy("bound"), _run_bound, _overlap, _labels,
        examples={"quick": 4, "thorough": 12}, shards={"quick": 3, "thorough": 4}, rule="as bound; N = 600..2100 paired observations, 6 rows judged"),
    Sub("tightness", lambda tier: [p for p in _pool(tier) if p[3] == 1 or p[0] == 1], _strategy("tight"), _run_tight, _overlap, _labels,
        examples={"quick": 5, "thorough": 30}, shards={"quick": 14, "thorough": 24}, rule="some unit with |E h| <= 3 sd(h)"),
]
