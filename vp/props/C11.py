"""C11 - Bayesian updating is path independent (posterior and evidence); Kalman filtering vs dense joint."""
import numpy as np
from hypothesis import strategies as st

from .. import gen, oracle
from ..compare import Failure, check, lib
from ..sub import Sub

RULE = ("Histories: N linear-Gaussian observations with individual (M_i,b_i,S_i) applied in a drawn order (sequential route), "
        "through the stacked joint + coordinate conditioning, and through prior * product of set_y factors. "
        "Non-trivial: N >= 2 with a non-identity permutation; Kalman: T >= 3.")
BOUNDS = {"Dw": "1..4", "Dy": "1..3", "N": "1..6", "Kalman Dz,Dy": "1..3", "T": "<=6 quick, <=12 thorough"}
ASSUMPTIONS = [
    "reference posterior (L0 + sum M' L M)^-1 and evidence ln N(y_stacked; M mu0 + b, S_block + M Sigma0 M') in numpy",
    "Kalman reference: dense joint over (z_0..T, y_1..T) assembled block-wise (Cov(z_s,z_t)=A^(t-s)P_s) and conditioned by a Schur complement",
    "factor-route evidence differs by exactly N(Dy-Dw)/2 ln 2pi when Dw != Dy (listed finding KF-SETY-NORM); any other residual is a violation",
]
LN2PI = oracle.LN2PI


def _pool_reg(tier):
    # (Dw, Dy, N)
    base = [(1, 1, 1), (2, 1, 3), (2, 2, 2), (3, 2, 4), (1, 2, 3), (3, 3, 2), (4, 2, 3), (2, 3, 5)]
    if tier == "thorough":
        base += [(4, 1, 6), (1, 3, 2), (3, 1, 6), (4, 3, 4), (2, 2, 6), (1, 1, 5)]
    return base


def _strategy_reg(shapes):
    @st.composite
    def s(draw):
        Dw, Dy, N = draw(st.sampled_from(shapes))
        kappa = draw(st.sampled_from([10.0, 50.0]))
        M = draw(gen.arr((N, Dy, Dw), -1.5, 1.5))
        regime = draw(st.sampled_from(["generic", "generic", "generic", "dependent_rows", "shared_M", "zero_M_one"]))
        if regime == "dependent_rows" and Dy >= 2:
            M[:, 1, :] = 2.0 * M[:, 0, :]          # rank-deficient observation maps
        elif regime == "shared_M":
            M[:] = M[0]                             # every observation uses the same map
        elif regime == "zero_M_one":
            M[draw(st.integers(0, N - 1))] = 0.0    # one uninformative observation
        S = draw(gen.spd(N, Dy, kappa=kappa))
        if Dw == Dy and draw(st.sampled_from([False, False, True])):
            # sharp complete observations of a vague prior (same units): well-conditioned square maps, noise variance 1e-10 /
            # 1e-14; covariance-form ("gain") updates cancel here, the information form does not
            regime = "sharp"
            M = draw(gen.spd(N, Dw, kappa=10.0, lam_lo=0.5, lam_hi=1.0))
            S = S * draw(st.sampled_from([1e-10, 1e-14]))
        return {"Dw": Dw, "Dy": Dy, "N": N, "regime": regime,
                "prior": draw(gen.measure_params("pdf", 1, Dw, kappa)),
                "M": M, "b": draw(gen.arr((N, Dy))),
                "S": S, "y": draw(gen.arr((N, Dy), -2.5, 2.5)),
                "perm": list(draw(st.permutations(list(range(N)))))}
    return s()


def _run_reg(case):
    from .. import libx
    from ..libx import J
    import jax.numpy as jnp
    from gaussian_toolbox import conditional

    fails = []
    Dw, Dy, N = case["Dw"], case["Dy"], case["N"]
    mu0, Sig0 = np.asarray(case["prior"]["mu"], float)[0], np.asarray(case["prior"]["Sigma"], float)[0]
    M, b, S, y = (np.asarray(case[k], float) for k in ("M", "b", "S", "y"))
    L0 = oracle.inv_spd(Sig0[None])[0]
    Lp, nup = L0.copy(), L0 @ mu0
    for i in range(N):
        Li = oracle.inv_spd(S[i][None])[0]
        Lp += M[i].T @ Li @ M[i]
        nup += M[i].T @ Li @ (y[i] - b[i])
    Lp = 0.5 * (Lp + Lp.T)
    kap = max(1.0, float(oracle.cond(Lp[None])[0]))
    if kap > 1e6:
        return [Failure("excluded:ill_conditioned_derived", "posterior precision cond > 1e6")]
    mup, Sp = oracle.mean_cov(Lp[None], nup[None])
    mup, Sp = mup[0], Sp[0]
    Ms = M.reshape(N * Dy, Dw)
    bs = b.reshape(N * Dy)
    Sb = np.zeros((N * Dy, N * Dy))
    for i in range(N):
        Sb[i * Dy:(i + 1) * Dy, i * Dy:(i + 1) * Dy] = S[i]
    Sy = Sb + Ms @ Sig0 @ Ms.T
    Sy = 0.5 * (Sy + Sy.T)
    sharp = case.get("regime") == "sharp"
    if sharp:
        # the posterior is judged (information form); the evidence is not: its stacked covariance is ill-conditioned for N >= 2
        # and the factor route's log-integral legitimately loses eps * |y' Lambda y| there (natural scale of the log-constants)
        ev = evs = None
    elif oracle.cond(Sy[None])[0] > 1e6:
        return [Failure("excluded:ill_conditioned_derived", "evidence covariance cond > 1e6")]
    else:
        ev, evs = oracle.mvn_ln(y.reshape(1, -1), (Ms @ mu0 + bs)[None], Sy[None])
        ev, evs = ev[0, 0], evs[0, 0]
    amp = kap ** 0.5 * N
    s_mu = (1 + np.abs(mup)) * amp
    s_S = np.abs(Sp).max() * amp * np.ones_like(Sp)

    ok, prior = lib(fails, "construct_prior", libx.make_measure, "pdf", case["prior"])
    if not ok:
        return fails

    def cond_i(i):
        return conditional.ConditionalGaussianPDF(M=J(M[i:i + 1]), b=J(b[i:i + 1]), Sigma=J(S[i:i + 1]))

    # (a) sequential in the drawn order and in the identity order
    for name, order in (("perm", case["perm"]), ("identity", list(range(N)))):
        def seq():
            p = prior
            acc = 0.0
            for i in order:
                c = cond_i(i)
                py = c.affine_marginal_transformation(p)
                acc = acc + py.evaluate_ln(J(y[i:i + 1]))[0, 0]
                p = c.affine_conditional_transformation(p).condition_on_x(J(y[i:i + 1]))
            return p, acc
        ok, res = lib(fails, f"sequential[{name}]", seq)
        if ok:
            p, acc = res
            check(fails, f"sequential[{name}]:mu", np.asarray(p.mu)[0], mup, s_mu)
            check(fails, f"sequential[{name}]:Sigma", np.asarray(p.Sigma)[0], Sp, s_S)
            if ev is not None:
                check(fails, f"sequential[{name}]:evidence", float(acc), ev, evs * amp)
    # (b) stacked conditional -> joint -> condition on the observation coordinates
    def joint_route():
        c = conditional.ConditionalGaussianPDF(M=J(Ms[None]), b=J(bs[None]), Sigma=J(Sb[None]))
        j = c.affine_joint_transformation(prior)
        pc = j.condition_on(jnp.arange(Dw, Dw + N * Dy))
        return pc.condition_on_x(J(y.reshape(1, -1))), j.get_marginal(jnp.arange(Dw, Dw + N * Dy)).evaluate_ln(J(y.reshape(1, -1)))[0, 0]
    ok, res = lib(fails, "joint_route", joint_route)
    if ok:
        p, e2 = res
        check(fails, "joint_route:mu", np.asarray(p.mu)[0], mup, s_mu)
        check(fails, "joint_route:Sigma", np.asarray(p.Sigma)[0], Sp, s_S)
        if ev is not None:
            check(fails, "joint_route:evidence", float(e2), ev, evs * amp)
    # (c) prior * product of likelihood factors, normalised
    def factor_route():
        c = conditional.ConditionalGaussianPDF(M=J(M), b=J(b), Sigma=J(S))
        f = c.set_y(J(y)).product()
        u = prior.multiply(f, update_full=True)
        # the same product taken component-wise (one prior component, one factor component), with and without the covariance
        uh = prior.hadamard(f, update_full=True)
        uh0 = prior.hadamard(f, update_full=False)
        return u.get_density(), u.log_integral()[0], uh.get_density(), uh.log_integral()[0], uh0.log_integral()[0]
    ok, res = lib(fails, "factor_route", factor_route)
    if ok:
        p, e3, ph, eh, eh0 = res
        check(fails, "factor_route[hadamard]:mu", np.asarray(ph.mu)[0], mup, s_mu)
        check(fails, "factor_route[hadamard]:Sigma", np.asarray(ph.Sigma)[0], Sp, s_S)
        # evidence of the hadamard routes against the multiply route (library vs library: the listed set_y constant cancels)
        if ev is not None:  # (not in the sharp regime: log-integrals legitimately lose eps * |y' Lambda y| there)
            check(fails, "factor_route[hadamard,update_full]:evidence_vs_multiply", float(eh), float(e3), evs * amp)
            check(fails, "factor_route[hadamard]:evidence_vs_multiply", float(eh0), float(e3), evs * amp)
        check(fails, "factor_route:mu", np.asarray(p.mu)[0], mup, s_mu)
        check(fails, "factor_route:Sigma", np.asarray(p.Sigma)[0], Sp, s_S)
        fl = []
        if ev is not None and not check(fl, "factor_route:evidence", float(e3), ev, evs * amp):
            f0 = fl[0]
            shift = N * 0.5 * (Dy - Dw) * LN2PI
            if Dw != Dy and check([], "x", float(e3) - shift, ev, evs * amp, tol=1e-9):
                f0["kf_sety"] = True
                f0["label"] = "factor_route:evidence:KF-SETY-NORM"
            fails.append(f0)
    return fails


def _nontrivial_reg(case):
    return case["N"] >= 2 and case["perm"] != sorted(case["perm"])


def _labels_reg(case):
    return [f"N={case['N']}", "Dw!=Dy" if case["Dw"] != case["Dy"] else "Dw=Dy", "perm_nonid" if case["perm"] != sorted(case["perm"]) else "perm_id", f"regime={case.get('regime')}"]


# ------------------------------------------------------------------------------------------ Kalman
def _pool_kal(tier):
    # (Dz, Dy, T)
    base = [(1, 1, 1), (2, 1, 3), (2, 2, 4), (3, 2, 3), (1, 2, 5), (3, 3, 6), (2, 3, 2), (3, 1, 4)]
    if tier == "thorough":
        base += [(2, 2, 12), (3, 2, 9), (1, 1, 12), (3, 3, 8), (2, 1, 10), (1, 3, 7)]
    return base


def _strategy_kal(shapes):
    @st.composite
    def s(draw):
        Dz, Dy, T = draw(st.sampled_from(shapes))
        kappa = draw(st.sampled_from([10.0, 50.0]))
        A = draw(gen.arr((Dz, Dz), -1.0, 1.0)) / np.sqrt(Dz)
        C = draw(gen.arr((Dy, Dz), -1.5, 1.5))
        # exact structure of the dynamics / read-out (a quarter of the cases): identity, permutation, singular or nilpotent
        # dynamics in the GENERAL class, a read-out that selects single states (some states are never observed)
        struct = draw(st.sampled_from([None] * 6 + ["A_identity", "A_permutation", "A_singular", "A_nilpotent", "C_selection"]))
        if struct == "A_identity":
            A = np.eye(Dz)
        elif struct == "A_permutation":
            A = np.eye(Dz)[list(draw(st.permutations(list(range(Dz)))))]
        elif struct == "A_singular":
            A = A.copy()
            A[draw(st.integers(0, Dz - 1))] = 0.0
        elif struct == "A_nilpotent":
            A = np.triu(A, 1)
        elif struct == "C_selection":
            C = np.zeros((Dy, Dz))
            for i_, c_ in enumerate(draw(st.lists(st.integers(0, Dz - 1), min_size=Dy, max_size=Dy))):
                C[i_, c_] = 1.0
        return {"Dz": Dz, "Dy": Dy, "T": T, "structure": struct,
                "p0": draw(gen.measure_params("pdf", 1, Dz, kappa)),
                "A": A, "b": draw(gen.arr((Dz,), -1, 1)),
                "Q": draw(gen.spd(1, Dz, kappa=kappa))[0], "C": C,
                "d": draw(gen.arr((Dy,), -1, 1)), "Rn": draw(gen.spd(1, Dy, kappa=kappa))[0],
                "y": draw(gen.arr((T, Dy), -2.5, 2.5)),
                "identity_state": draw(st.sampled_from([False, False, True]))}
    return s()


def _run_kal(case):
    from .. import libx
    from ..libx import J
    from gaussian_toolbox import conditional

    fails = []
    Dz, Dy, T = case["Dz"], case["Dy"], case["T"]
    m0, P0 = np.asarray(case["p0"]["mu"], float)[0], np.asarray(case["p0"]["Sigma"], float)[0]
    A, b, Q, C, d, Rn, y = (np.asarray(case[k], float) for k in ("A", "b", "Q", "C", "d", "Rn", "y"))
    ident = case["identity_state"]
    if ident:
        A, b = np.eye(Dz), np.zeros(Dz)
    # dense joint over (z_1..z_T, y_1..y_T); z_0 is the prior state before the first prediction
    ms, Ps = [m0], [P0]
    for t in range(T):
        ms.append(A @ ms[-1] + b)
        Ps.append(A @ Ps[-1] @ A.T + Q)
    ms, Ps = ms[1:], Ps[1:]
    Czz = np.zeros((T * Dz, T * Dz))
    for s_ in range(T):
        for t in range(s_, T):
            blk = np.linalg.matrix_power(A, t - s_) @ Ps[s_]  # Cov(z_t, z_s), t >= s
            Czz[s_ * Dz:(s_ + 1) * Dz, t * Dz:(t + 1) * Dz] = blk.T
            Czz[t * Dz:(t + 1) * Dz, s_ * Dz:(s_ + 1) * Dz] = blk
    Cb = np.kron(np.eye(T), C)
    Syy = Cb @ Czz @ Cb.T + np.kron(np.eye(T), Rn)
    Syy = 0.5 * (Syy + Syy.T)
    Szy = Czz @ Cb.T
    my = Cb @ np.concatenate(ms) + np.tile(d, T)
    if oracle.cond(Syy[None])[0] > 1e6:
        return [Failure("excluded:ill_conditioned_derived", "dense observation covariance cond > 1e6")]
    Lyy = oracle.inv_spd(Syy[None])[0]
    zT = slice((T - 1) * Dz, T * Dz)
    G = Szy[zT] @ Lyy
    mT = ms[-1] + G @ (y.reshape(-1) - my)
    PT = Czz[zT, zT] - G @ Szy[zT].T
    PT = 0.5 * (PT + PT.T)
    ev, evs = oracle.mvn_ln(y.reshape(1, -1), my[None], Syy[None])
    ev, evs = ev[0, 0], evs[0, 0]
    kap = max(1.0, float(oracle.cond(Syy[None])[0])) ** 0.5 * T

    def filt():
        if ident:
            sc = conditional.ConditionalIdentityGaussianPDF(Sigma=J(Q[None]))
        else:
            sc = conditional.ConditionalGaussianPDF(M=J(A[None]), b=J(b[None]), Sigma=J(Q[None]))
        oc = conditional.ConditionalGaussianPDF(M=J(C[None]), b=J(d[None]), Sigma=J(Rn[None]))
        p = libx.make_measure("pdf", case["p0"])
        acc = 0.0
        for t in range(T):
            pred = sc.affine_marginal_transformation(p)
            acc = acc + oc.affine_marginal_transformation(pred).evaluate_ln(J(y[t:t + 1]))[0, 0]
            p = oc.affine_conditional_transformation(pred).condition_on_x(J(y[t:t + 1]))
        return p, acc
    ok, res = lib(fails, "kalman_filter", filt)
    if ok:
        p, acc = res
        check(fails, "kalman:filtered_mu", np.asarray(p.mu)[0], mT, (1 + np.abs(mT)) * kap)
        check(fails, "kalman:filtered_Sigma", np.asarray(p.Sigma)[0], PT, np.abs(Ps[-1]).max() * kap * np.ones_like(PT))
        check(fails, "kalman:evidence", float(acc), ev, evs * kap)
    return fails


SUBS = [
    Sub("regression", _pool_reg, _strategy_reg, _run_reg, _nontrivial_reg, _labels_reg,
        examples={"quick": 60, "thorough": 300}, shards={"quick": 8, "thorough": 14}, rule="N>=2 with a non-identity permutation"),
    Sub("kalman", _pool_kal, _strategy_kal, _run_kal, lambda c: c["T"] >= 3,
        lambda c: [f"T={c['T']}", f"identity_state={c['identity_state']}", f"structure={c.get('structure') or 'generic'}"],
        examples={"quick": 40, "thorough": 200}, shards={"quick": 8, "thorough": 14}, rule="T>=3"),
]
