"""C03 - polynomial integrals equal the exact Gaussian moments."""
import numpy as np
from hypothesis import strategies as st

from .. import gen, oracle
from ..compare import Failure, check, lib
from ..sub import Sub

RULE = ("Non-trivial: D >= 2 and (the key has a single output dimension, or its output dimensions differ) so that "
        "transpositions are visible; sub-class per-component coefficients with R >= 2.")
BOUNDS = {"D": "1..6", "K,L,M": "1..5 pairwise different", "R": "1..4", "exact mode": "integer mu in -2..2, Sigma=LL' (unit lower-triangular integer L in -2..2), integer coefficients in -3..3, D<=4"}
ASSUMPTIONS = [
    "oracle 1: Isserlis moment tensors of the augmented vector (x,1) contracted element-wise with [A a] from the definition of the integrand",
    "oracle 2 (D<=4): tensor Gauss-Hermite, 3 nodes per dimension, exact for total degree <= 5, integrand evaluated from its definition",
    "oracle 3 (exact mode): int64 arithmetic; bit-exact equality is sound because every intermediate is an integer < 2^53 and the density's mass is exp(lnZ-lnZ)=1.0",
]

# key -> (forms [(letter, dim symbol)], einsum over homogeneous coefficients + moment tensor, order, output symbols)
SPEC = {
    "1": ([], None, 0, ""),
    "x": ([], None, 1, "d"),
    "xx'": ([], None, 2, "dd"),
    "(Ax+a)": ([("A", "K")], "ki,i->k", 1, "K"),
    "(Ax+a)'(Bx+b)": ([("A", "K"), ("B", "K")], "ki,kj,ij->", 2, ""),
    "(Ax+a)(Bx+b)'": ([("A", "K"), ("B", "L")], "ki,lj,ij->kl", 2, "KL"),
    "(Ax+a)(Bx+b)'(Cx+c)": ([("A", "K"), ("B", "L"), ("C", "L")], "ki,lj,lp,ijp->k", 3, "K"),
    "(Ax+a)'(Bx+b)(Cx+c)'": ([("A", "K"), ("B", "K"), ("C", "L")], "ki,kj,lp,ijp->l", 3, "L"),
    "x(A'x + a)x'": ([("A", "1")], None, 3, "dd"),
    "xb'xx'": ([], None, 3, "dd"),
    "(Ax+a)'(Bx+b)(Cx+c)'(Dx+d)": ([("A", "K"), ("B", "K"), ("C", "L"), ("D", "L")], "ki,kj,lp,lq,ijpq->", 4, ""),
    "(Ax+a)(Bx+b)'(Cx+c)(Dx+d)'": ([("A", "K"), ("B", "L"), ("C", "L"), ("D", "M")], "ki,lj,lp,mq,ijpq->km", 4, "KM"),
}
KEYS = list(SPEC)


def _pool(tier):
    # (D, K, L, M, R)
    base = [(1, 1, 2, 3, 1), (2, 1, 3, 2, 2), (3, 2, 1, 3, 3), (2, 3, 2, 1, 1), (4, 2, 3, 1, 2), (3, 1, 2, 4, 2),
            (5, 3, 1, 2, 1), (2, 2, 4, 3, 3), (2, 1, 3, 2, 20)]  # the last one: a batch beyond 16
    if tier == "thorough":
        base += [(6, 2, 3, 1, 2), (1, 3, 1, 2, 4), (4, 5, 2, 3, 1), (3, 4, 5, 1, 2), (5, 1, 3, 2, 3), (2, 5, 1, 4, 4),
                 (6, 1, 2, 3, 1), (3, 3, 4, 2, 4), (4, 1, 5, 2, 2), (2, 4, 3, 5, 2)]
    return base


def _pool_exact(tier):
    base = [(1, 1, 2, 3, 1), (2, 1, 3, 2, 2), (3, 2, 1, 3, 2), (2, 3, 2, 1, 3), (4, 2, 3, 1, 1)]
    if tier == "thorough":
        base += [(3, 1, 2, 3, 3), (4, 1, 2, 3, 2), (2, 2, 1, 3, 4), (1, 3, 1, 2, 2)]
    return base


def _dims(case):
    return {"K": case["K"], "L": case["L"], "M": case["M"], "1": 1, "d": case["D"]}


def _strategy(exact):
    def make(shapes):
        @st.composite
        def s(draw):
            D, K, L, M, R = draw(st.sampled_from(shapes))
            key = draw(st.sampled_from(KEYS))
            forms, _, _, _ = SPEC[key]
            case = {"D": D, "K": K, "L": L, "M": M, "R": R, "key": key, "exact": exact, "modes": {}, "coef": {}}
            # modes first: an omitted matrix forces its dimension symbol to D
            for letter, sym in forms:
                if key == "x(A'x + a)x'":
                    mm = draw(st.sampled_from(["shared", "per"]))
                else:
                    mm = draw(st.sampled_from(["shared", "per", "omit"]))
                vm = draw(st.sampled_from(["shared", "per", "omit"]))
                case["modes"][letter] = [mm, vm]
                if mm == "omit":
                    case[sym] = D
            dims = _dims(case)
            ints = st.integers(-3, 3).map(float)

            def coef(shape):
                if exact:
                    n = int(np.prod(shape))
                    return np.array(draw(st.lists(ints, min_size=n, max_size=n)), float).reshape(shape)
                return draw(gen.arr(shape, -2, 2))

            for letter, sym in forms:
                k = dims[sym]
                mm, vm = case["modes"][letter]
                if mm != "omit":
                    case["coef"][letter + "_mat"] = coef((R, k, D) if mm == "per" else (k, D))
                if vm != "omit":
                    case["coef"][letter.lower() + "_vec"] = coef((R, k) if vm == "per" else (k,))
            # aliasing mode: two affine forms with the same row symbol receive the SAME matrix object (the library's own
            # callers do this); the offset vectors stay independent
            case["alias"] = []
            pairs = [(forms[i][0], forms[j][0]) for i in range(len(forms)) for j in range(i + 1, len(forms)) if forms[i][1] == forms[j][1]]
            if pairs and draw(st.booleans()):
                l1, l2 = draw(st.sampled_from(pairs))
                if case["modes"][l1][0] != "omit":
                    case["modes"][l2][0] = case["modes"][l1][0]
                    case["coef"][l2 + "_mat"] = case["coef"][l1 + "_mat"]
                    case["alias"] = [l1, l2]
            # dtype regime: one coefficient matrix is integer-valued and passed as an INTEGER array (the way a selection or
            # difference matrix is usually written) next to real-valued offset vectors
            mats = [k_ for k_ in case["coef"] if k_.endswith("_mat")]
            if not exact and mats and draw(st.sampled_from([False] * 7 + [True])):
                k_ = draw(st.sampled_from(sorted(mats)))
                case["coef"][k_] = np.round(np.asarray(case["coef"][k_], float))
                for k2 in mats:
                    if case["coef"][k2] is not case["coef"][k_] and case["alias"] and k2[0] in case["alias"] and k_[0] in case["alias"]:
                        case["coef"][k2] = case["coef"][k_]
                case["int_mat"] = k_
            if key == "xb'xx'":
                per = draw(st.booleans())
                case["modes"]["b"] = ["per" if per else "shared"]
                case["coef"]["b_vec"] = coef((R, D) if per else (D,))
            if exact:
                n = R * D
                mu = np.array(draw(st.lists(st.integers(-2, 2).map(float), min_size=n, max_size=n))).reshape(R, D)
                nl = R * D * D
                Lm = np.array(draw(st.lists(st.integers(-2, 2).map(float), min_size=nl, max_size=nl))).reshape(R, D, D)
                Lm = np.tril(Lm, -1) + np.eye(D)[None]
                case["mkind"] = "pdf"
                case["cache"] = "cold"
                case["m"] = {"Sigma": np.einsum("rij,rkj->rik", Lm, Lm), "mu": mu}
            else:
                mkind = draw(st.sampled_from(gen.MEASURE_KINDS))
                case["mkind"] = mkind
                case["cache"] = draw(st.sampled_from(gen.CACHES))
                case["m"] = draw(gen.measure_params(mkind, R, D, draw(st.sampled_from([10.0, 100.0])), extreme=True, hetero=True))
            return case
        return s()
    return make


def _hom(case, letter, sym, r, absval=False):
    """Homogeneous coefficient [k, D+1] of form `letter` for component r (defaults: identity / zero)."""
    D = case["D"]
    k = _dims(case)[sym]
    mat = case["coef"].get(letter + "_mat")
    vec = case["coef"].get(letter.lower() + "_vec")
    if mat is None:
        Mx = np.eye(D)
    else:
        Mx = np.asarray(mat, float)
        if Mx.ndim == 3:
            Mx = Mx[r]
    if vec is None:
        v = np.zeros(Mx.shape[0])
    else:
        v = np.asarray(vec, float)
        if v.ndim == 2:
            v = v[r]
    H = np.concatenate([Mx, v[:, None]], 1)
    return np.abs(H) if absval else H


def _aug(mu, Sig):
    D = mu.shape[0]
    mu_a = np.concatenate([mu, [1.0]])
    S_a = np.zeros((D + 1, D + 1))
    S_a[:D, :D] = Sig
    return mu_a, S_a


def _reference(case, mu, Sig, dtype=float):
    """Expectation of the integrand for one component from Isserlis moment tensors (value, abs-scale)."""
    out, sc = [], []
    key = case["key"]
    forms, ein, order, _ = SPEC[key]
    D = case["D"]
    R = mu.shape[0]
    for r in range(R):
        mu_a, S_a = _aug(mu[r], Sig[r])
        T = oracle.moment_tensors(mu_a, S_a, max(order, 1))
        Tabs = oracle.moment_tensors(np.abs(mu_a), np.abs(S_a), max(order, 1))
        if key == "1":
            v, s = np.array(1.0), np.array(1.0)
        elif key == "x":
            v, s = T[1][:D], Tabs[1][:D]
        elif key == "xx'":
            v, s = T[2][:D, :D], Tabs[2][:D, :D]
        elif key == "x(A'x + a)x'":
            H = _hom(case, "A", "1", r)[0]
            v = np.einsum("p,ipj->ij", H, T[3])[:D, :D]
            s = np.einsum("p,ipj->ij", np.abs(H), Tabs[3])[:D, :D]
        elif key == "xb'xx'":
            b = np.asarray(case["coef"]["b_vec"], float)
            b = b[r] if b.ndim == 2 else b
            v = np.einsum("p,ipj->ij", b, T[3][:D, :D, :D])
            s = np.einsum("p,ipj->ij", np.abs(b), Tabs[3][:D, :D, :D])
        else:
            Hs = [_hom(case, l, sym, r) for l, sym in forms]
            Ha = [np.abs(h) for h in Hs]
            v = np.einsum(ein, *Hs, T[order])
            s = np.einsum(ein, *Ha, Tabs[order])
        out.append(np.asarray(v, dtype))
        sc.append(np.asarray(s, float))
    return np.stack(out), np.stack(sc)


def _integrand(case, r, X):
    """Integrand evaluated from its definition at nodes X [Q,D] for component r -> [Q, ...]."""
    key = case["key"]
    forms, _, _, _ = SPEC[key]
    D = case["D"]
    Q = X.shape[0]
    Xa = np.concatenate([X, np.ones((Q, 1))], 1)
    F = {l: Xa @ _hom(case, l, sym, r).T for l, sym in forms}  # [Q,k]
    if key == "1":
        return np.ones(Q)
    if key == "x":
        return X
    if key == "xx'":
        return np.einsum("qi,qj->qij", X, X)
    if key == "(Ax+a)":
        return F["A"]
    if key == "(Ax+a)'(Bx+b)":
        return np.sum(F["A"] * F["B"], 1)
    if key == "(Ax+a)(Bx+b)'":
        return np.einsum("qk,ql->qkl", F["A"], F["B"])
    if key == "(Ax+a)(Bx+b)'(Cx+c)":
        return F["A"] * np.sum(F["B"] * F["C"], 1)[:, None]
    if key == "(Ax+a)'(Bx+b)(Cx+c)'":
        return np.sum(F["A"] * F["B"], 1)[:, None] * F["C"]
    if key == "x(A'x + a)x'":
        return np.einsum("qi,q,qj->qij", X, F["A"][:, 0], X)
    if key == "xb'xx'":
        b = np.asarray(case["coef"]["b_vec"], float)
        b = b[r] if b.ndim == 2 else b
        return np.einsum("qi,q,qj->qij", X, X @ b, X)
    if key == "(Ax+a)'(Bx+b)(Cx+c)'(Dx+d)":
        return np.sum(F["A"] * F["B"], 1) * np.sum(F["C"] * F["D"], 1)
    if key == "(Ax+a)(Bx+b)'(Cx+c)(Dx+d)'":
        return np.einsum("qk,q,qm->qkm", F["A"], np.sum(F["B"] * F["C"], 1), F["D"])
    raise KeyError(key)


def _kwargs(case):
    from ..libx import J

    import jax.numpy as jnp

    kw = {k: (jnp.asarray(np.asarray(v).astype(np.int64)) if k == case.get("int_mat") else J(v)) for k, v in case["coef"].items()}
    al = case.get("alias") or []
    if len(al) == 2:
        kw[al[1] + "_mat"] = kw[al[0] + "_mat"]  # the very same array object
    return kw


def _run(case):
    from .. import libx

    fails = []
    key = case["key"]
    D, R = case["D"], case["R"]
    Lm, nu, lb = libx.measure_params_np(case["mkind"], case["m"])
    if case["mkind"] in ("pdf", "diag_pdf"):
        mu, Sig = np.asarray(case["m"]["mu"], float), np.asarray(case["m"]["Sigma"], float)
        lnm, lsc = np.zeros(R), np.ones(R)
    else:
        mu, Sig = oracle.mean_cov(Lm, nu)
        lnm, lsc = oracle.ln_mass(Lm, nu, lb)
    ok, m = lib(fails, "construct_measure", libx.make_measure, case["mkind"], case["m"], case["cache"])
    if not ok:
        return fails
    tag = f"integrate[{key}]"
    ok, got = lib(fails, tag, lambda: m.integrate(key, **_kwargs(case)))
    if not ok:
        return fails
    got = np.asarray(got)
    if case["exact"]:
        want, _ = _reference(case, mu, Sig)
        want_i = np.rint(want)
        if not np.array_equal(want, want_i) or np.max(np.abs(want)) >= 2.0**52:
            raise AssertionError("exact-mode oracle is not integral / too large")  # generator error -> harness
        if got.shape != want.shape:
            fails.append(Failure(tag + ":exact_shape", f"{tag}: shape {got.shape} != {want.shape}"))
        elif not np.array_equal(got, want):
            i = int(np.argmax(np.abs(got - want)))
            fails.append(Failure(tag + ":exact", f"{tag}: exact mode differs: got {got.ravel()[i]!r}, want {want.ravel()[i]!r} (max abs diff {np.max(np.abs(got-want)):.3g})"))
        return fails
    val, sc = _reference(case, mu, Sig)
    mass = np.exp(lnm)
    bshape = (R,) + (1,) * (val.ndim - 1)
    want = mass.reshape(bshape) * val
    # the mean/covariance are obtained by inverting Lambda: allow its conditioning in the scale
    kap = np.maximum(1.0, oracle.cond(Lm)) ** 0.5
    # natural scale: element-wise sum of absolute terms, floored at 1% of the component's largest entry
    # (the library may expand an entry into different, cancelling terms than the oracle does)
    glob = sc.reshape(R, -1).max(1).reshape(bshape) * np.ones_like(sc)
    pref = (mass * lsc * kap).reshape(bshape)
    scale = pref * np.maximum(np.maximum(sc, 0.01 * glob), 1e-300)
    check(fails, tag + ":isserlis", got, want, scale)
    if D <= 4 and key != "1":
        vals, vabs = [], []
        for r in range(R):
            X, w = oracle.gauss_hermite_nd(mu[r], Sig[r], 3)
            fx = _integrand(case, r, X)
            vals.append(np.tensordot(w, fx, axes=(0, 0)))
            vabs.append(np.tensordot(w, np.abs(fx), axes=(0, 0)))
        want2 = mass.reshape(bshape) * np.stack(vals)
        # quadrature round-off is relative to the summed magnitude of the node terms (whole component)
        gq = np.stack(vabs).reshape(R, -1).max(1).reshape(bshape) * np.ones_like(sc)
        check(fails, tag + ":gauss_hermite", got, want2, pref * np.maximum(np.maximum(glob, gq), 1e-300) * 10)
    return fails


def _nontrivial(case):
    _, _, _, outsym = SPEC[case["key"]]
    if case["D"] < 2 or case["key"] == "1":
        return False
    if len(outsym) <= 1:
        return True
    if outsym == "dd":
        return True
    d = _dims(case)
    return d[outsym[0]] != d[outsym[1]]


def _labels(case):
    out = [f"key={case['key']}", f"mkind={case['mkind']}", f"cache={case['cache']}"]
    per = any("per" in v for v in case["modes"].values())
    if per and case["R"] >= 2:
        out.append("per_component_R>=2")
    for l, v in case["modes"].items():
        out.append("mode=" + "/".join(v))
    if case.get("alias"):
        out.append("aliased_matrices")
    if case.get("int_mat"):
        out.append("integer_dtype_matrix")
    return out


SUBS = [
    Sub("moments", _pool, _strategy(False), _run, _nontrivial, _labels,
        examples={"quick": 150, "thorough": 800}, shards={"quick": 12, "thorough": 28},
        rule="D>=2 and single output dim or differing output dims"),
    Sub("exact", _pool_exact, _strategy(True), _run, _nontrivial, _labels,
        examples={"quick": 100, "thorough": 600}, shards={"quick": 4, "thorough": 8},
        rule="as above; integer inputs, bit-exact comparison"),
]
