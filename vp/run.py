"""Runner:  python -m vp.run <Cxx> <quick|thorough>   |   python -m vp.run <Cxx> --replay <file>

Shards every sub-check of a property over worker processes, drives Hypothesis in each, buckets
failures by label, consults KNOWN_FINDINGS.txt, writes replay files and the evidence file.
Exit 0 held / 1 VIOLATION / 2 harness error (inconclusive, never a violation).
"""
import hashlib
import importlib
import json
import multiprocessing as mp
import os
import sys
import time
import traceback
from collections import Counter

from .env import VERIF_DIR

MAX_BUCKETS = 4  # distinct failure labels enumerated per shard before giving up


CLEAR_EVERY = int(os.environ.get("VERIF_CLEAR_EVERY", "250"))
MAX_MAPS = int(os.environ.get("VERIF_MAX_MAPS", "20000"))


def _n_maps():
    try:
        with open("/proc/self/maps") as f:
            return sum(1 for _ in f)
    except OSError:
        return 0


def _structure_labels(case):
    """Exact-structure regimes drawn by the shared generators (gen._exact_structure and friends) are recorded on the parameter
    dicts themselves; surface them in the label histogram of every check."""
    out = []

    def walk(v):
        if isinstance(v, dict):
            if v.get("_structure"):
                out.append(f"structure={v['_structure']}")
            for w in v.values():
                walk(w)
        elif isinstance(v, (list, tuple)) and v and isinstance(v[0], dict):
            for w in v:
                walk(w)

    walk(case)
    return sorted(set(out))


def _seed_int(*parts):
    h = hashlib.sha256("|".join(str(p) for p in parts).encode()).digest()
    return int.from_bytes(h[:8], "big") & ((1 << 62) - 1)


def _case_hash(case_json):
    return hashlib.sha1(case_json.encode()).hexdigest()[:16]


def _trim(x, n=24):
    """Shorten a case for the evidence samples (long numeric lists are cut)."""
    if isinstance(x, dict):
        return {k: _trim(v, n) for k, v in x.items()}
    if isinstance(x, list):
        flat_len = len(json.dumps(x))
        if flat_len > 600:
            return {"_truncated": True, "head": json.loads(json.dumps(x))[:2] if x and isinstance(x[0], list) else x[:n], "len": len(x)}
        return x
    return x


class _Violation(Exception):
    pass


def load_prop(prop_id):
    return importlib.import_module(f"vp.props.{prop_id}")


def run_shard(args):
    """Worker: one (property, sub-check, shard)."""
    prop_id, sub_name, shard, nshards, tier, seed = args
    t0 = time.time()
    out = {
        "sub": sub_name, "shard": shard, "evaluations": 0, "nontrivial_hashes": [], "labels": {},
        "violations": [], "known": {}, "excluded": {}, "samples": [], "error": None, "wall_s": 0.0,
    }
    try:
        from . import env

        env.bootstrap()
        import hypothesis
        from hypothesis import HealthCheck, Phase, given, settings
        from hypothesis import seed as hseed
        import hypothesis.internal.conjecture.engine as eng

        eng.MAX_SHRINKING_SECONDS = 40 if tier == "quick" else 150
        from . import findings
        from .gen import jsonable

        mod = load_prop(prop_id)
        sub = {s.name: s for s in mod.SUBS}[sub_name]
        pool = sub.pool(tier)
        from .gen import pool_subset

        shapes = pool_subset(pool, shard, nshards)
        strat = sub.strategy(shapes)
        opened = findings.open_for(prop_id)
        n_examples = int(sub.examples[tier])
        if tier == "thorough":
            # the thorough tier is bounded by case counts, not time: 3x the per-shard counts listed in the sub-checks
            n_examples *= int(os.environ.get("VERIF_THOROUGH_SCALE", "3"))
        if os.environ.get("VERIF_EXAMPLES_SCALE"):
            n_examples = max(1, int(n_examples * float(os.environ["VERIF_EXAMPLES_SCALE"])))
        nontriv = set()
        labels = Counter()
        known = Counter()
        excluded = Counter()
        excluded_labels = set()
        state = {"evals": 0}

        for rnd in range(MAX_BUCKETS + 1):
            last = {}

            def body(case):
                case = jsonable(case)
                fails = sub.run(case)
                state["evals"] += 1
                if state["evals"] % CLEAR_EVERY == 0 or (state["evals"] % 10 == 0 and _n_maps() > MAX_MAPS):
                    # bound the footprint of long shards: compiled executables accumulate per shape - several GB per worker and,
                    # first of all, tens of thousands of memory mappings (the kernel's vm.max_map_count of 65530 is hit well before
                    # RAM runs out and shows up as "LLVM ... Cannot allocate memory").  The on-disk XLA cache keeps recompilation cheap.
                    import gc

                    import jax

                    jax.clear_caches()
                    gc.collect()
                cj = json.dumps(case, sort_keys=True)
                if sub.nontrivial(case):
                    nontriv.add(_case_hash(cj))
                    if len(out["samples"]) < 2:
                        out["samples"].append(_trim(case))
                for l in list(sub.labels(case)) + _structure_labels(case):
                    labels[l] += 1
                bad = []
                for f in fails:
                    if f["label"].startswith("excluded:"):
                        excluded[f["label"]] += 1
                        continue
                    kid = findings.known(prop_id, sub_name, case, f, opened)
                    if kid:
                        known[kid] += 1
                        continue
                    if f["label"] in excluded_labels:
                        excluded["excluded_after_violation:" + f["label"]] += 1
                        continue
                    bad.append(f)
                if bad:
                    last["case"] = case
                    last["fails"] = bad
                    raise _Violation(bad[0]["label"])

            test = given(strat)(body)
            test = settings(
                max_examples=n_examples,
                database=None,
                deadline=None,
                derandomize=False,
                report_multiple_bugs=False,
                suppress_health_check=list(HealthCheck),
                phases=(Phase.generate,) if os.environ.get("VERIF_NO_SHRINK") else (Phase.generate, Phase.shrink),
                print_blob=False,
            )(test)
            test = hseed(_seed_int(seed, prop_id, sub_name, shard, rnd))(test)
            try:
                test()
            except _Violation:
                f0 = last["fails"][0]
                out["violations"].append({"label": f0["label"], "case": last["case"], "fails": last["fails"]})
                excluded_labels.add(f0["label"])
                for f in last["fails"][1:]:
                    excluded_labels.add(f["label"])
                if len(out["violations"]) >= MAX_BUCKETS:
                    break
                continue
            break

        out["evaluations"] = state["evals"]
        out["nontrivial_hashes"] = sorted(nontriv)
        out["labels"] = dict(labels)
        out["known"] = dict(known)
        out["excluded"] = dict(excluded)
    except BaseException as e:  # harness error
        out["error"] = f"{type(e).__name__}: {e}\n{traceback.format_exc()}"
    out["wall_s"] = time.time() - t0
    return out


def write_replay(prop_id, sub_name, viol):
    d = os.path.join(os.environ.get("VERIF_REPLAY_DIR") or os.path.join(VERIF_DIR, "replays"), prop_id)
    os.makedirs(d, exist_ok=True)
    body = {"property": prop_id, "subcheck": sub_name, "label": viol["label"], "case": viol["case"],
            "failures": viol["fails"]}
    js = json.dumps(body, sort_keys=True, indent=1, default=str)
    slug = "".join(c if c.isalnum() else "_" for c in viol["label"])[:40]
    name = f"{sub_name}-{slug}-{hashlib.sha1(js.encode()).hexdigest()[:8]}.json"
    p = os.path.join(d, name)
    with open(p, "w") as f:
        f.write(js)
    return os.path.relpath(p, VERIF_DIR) if p.startswith(VERIF_DIR + os.sep) else p


def replay(prop_id, path):
    from . import env, findings

    env.bootstrap()
    mod = load_prop(prop_id)
    body = json.load(open(path))
    sub = {s.name: s for s in mod.SUBS}[body["subcheck"]]
    fails = sub.run(body["case"])
    opened = findings.open_for(prop_id)
    bad = 0
    for f in fails:
        if f["label"].startswith("excluded:"):
            continue
        kid = findings.known(prop_id, sub.name, body["case"], f, opened)
        if kid:
            print(f"KNOWN-FINDING: property={prop_id} {kid} {f['msg']}")
            continue
        bad += 1
        print(f"FAIL {f['label']}: {f['msg']}")
    if bad:
        print(f"VIOLATION property={prop_id} replay={path}")
        return 1
    print(f"replay passes: property={prop_id} {path}")
    return 0


def main(argv):
    if len(argv) < 2:
        print(__doc__)
        return 2
    prop_id = argv[0]
    if argv[1] == "--replay":
        return replay(prop_id, argv[2])
    tier = argv[1]
    assert tier in ("quick", "thorough")
    seed = int(os.environ.get("VERIF_SEED", "1"))
    t0 = time.time()
    from . import findings
    from . import evidence

    mod = load_prop(prop_id)
    only = os.environ.get("VERIF_SUBS")
    subs = [s for s in mod.SUBS if not only or s.name in only.split(",")]
    tasks = []
    for s in subs:
        n = int(s.shards[tier])
        for sh in range(n):
            tasks.append((prop_id, s.name, sh, n, tier, seed))
    nproc = min(int(os.environ.get("VERIF_PROCS", "16")), max(1, len(tasks)))
    ctx = mp.get_context("spawn")
    results = []
    if nproc == 1:
        results = [run_shard(t) for t in tasks]
    else:
        with ctx.Pool(nproc, maxtasksperchild=1) as pool:
            for r in pool.imap_unordered(run_shard, tasks):
                results.append(r)
    results.sort(key=lambda r: (r["sub"], r["shard"]))
    errors = [r for r in results if r["error"]]
    viol_lines = []
    seen_labels = set()
    nviol = 0
    for r in results:
        for v in r["violations"]:
            nviol += 1
            key = (r["sub"], v["label"])
            if key in seen_labels:
                continue
            seen_labels.add(key)
            p = write_replay(prop_id, r["sub"], v)
            viol_lines.append((p, r["sub"], v))
    opened = findings.open_for(prop_id)
    known_total = Counter()
    for r in results:
        known_total.update(r["known"])
    for e in opened:
        print(f"KNOWN-FINDING: property={prop_id} {e['id']} hits={known_total.get(e['id'], 0)} {e['text']}")
    wall = time.time() - t0
    ev = evidence.build(prop_id, tier, seed, mod, subs, results, len(viol_lines), wall)
    evidence.write(prop_id, ev)
    for p, subn, v in viol_lines:
        print(f"  [{subn}] {v['label']}: {v['fails'][0]['msg'][:400]}")
        print(f"VIOLATION property={prop_id} replay={p}")
    cov = ev["coverage"]
    print(
        f"{prop_id} {tier} seed={seed}: evaluations={cov['evaluations']} distinct_nontrivial={cov['distinct_nontrivial']} "
        f"violations={len(viol_lines)} known_hits={sum(known_total.values())} errors={len(errors)} wall={wall:.1f}s"
    )
    if viol_lines:
        return 1
    if errors:
        for r in errors[:3]:
            print(f"HARNESS-ERROR [{r['sub']}#{r['shard']}]: {r['error'][:3000]}", file=sys.stderr)
        return 2
    return 0


if __name__ == "__main__":
    sys.exit(main(sys.argv[1:]))
