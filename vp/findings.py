"""KNOWN_FINDINGS.txt parser and one narrow matcher per open finding id.

File format (committed, never written at run time), one entry per line:
  open:  property=C10,C11 id=KF-... site=... when=... what=...
  fixed: property=C18 <commit> <what failed>
Only `open:` lines are consulted, and only through the matcher registered for their id: a failure
that the matcher does not recognise is still a VIOLATION.  `fixed:` lines suppress nothing.
"""
import os
import re

from .env import VERIF_DIR

PATH = os.path.join(VERIF_DIR, "KNOWN_FINDINGS.txt")


def load():
    out = []
    if not os.path.exists(PATH):
        return out
    for line in open(PATH):
        line = line.strip()
        if not line or line.startswith("#"):
            continue
        m = re.match(r"^(open|fixed):\s+property=([A-Z0-9,]+)\s+(.*)$", line)
        if not m:
            continue
        kind, props, rest = m.groups()
        ent = {"kind": kind, "props": props.split(","), "text": rest}
        mid = re.search(r"\bid=(\S+)", rest)
        ent["id"] = mid.group(1) if mid else None
        out.append(ent)
    return out


def open_for(prop_id):
    return [e for e in load() if e["kind"] == "open" and prop_id in e["props"] and e["id"]]


# ----------------------------------------------------------------------------------------------
# Matchers: fn(prop_id, sub_name, case, failure) -> bool.  Deliberately narrow (DESIGN §3).
MATCHERS = {}


def matcher(fid):
    def deco(fn):
        MATCHERS[fid] = fn
        return fn

    return deco


def known(prop_id, sub_name, case, failure, opened=None):
    """Return the id of the open finding that explains this failure, or None."""
    opened = open_for(prop_id) if opened is None else opened
    for e in opened:
        fn = MATCHERS.get(e["id"])
        if fn is None:
            continue
        try:
            if fn(prop_id, sub_name, case, failure):
                return e["id"]
        except Exception:
            continue
    return None


@matcher("KF-SETY-NORM")
def _kf_sety_norm(prop_id, sub_name, case, failure):
    """set_y of full / diag / NN-control conditionals with Dx != Dy: the log-constant is off by
    exactly k*(Dy-Dx)/2*ln(2*pi), k = number of observations entering the compared quantity.
    The check computes the signature itself (`kf_sety` = True) from the residual; any other
    residual under the same label is not matched."""
    return bool(failure.get("kf_sety"))


@matcher("KF-HET-DA")
def _kf_het_da(prop_id, sub_name, case, failure):
    """Heteroscedastic conditionals constructed with Da > Dy (A not square)."""
    return bool(failure.get("kf_het_da"))


@matcher("KF-HET-DEGENERATE")
def _kf_het_degenerate(prop_id, sub_name, case, failure):
    """step / ReLU heteroscedastic classes with Dx > 1: the bound is NaN when a_i'M is parallel to w_i (incl. M = 0).
    Only a non-finite bound on an input the check itself classified as degenerate is matched."""
    return bool(failure.get("kf_het_degenerate")) and failure.get("label", "").endswith(":nonfinite")
