"""Process bootstrap: import gaussian_toolbox from the tree under test (VERIF_REPO, default /repo),
float64, CPU, one XLA thread per worker, optional persistent XLA compilation cache."""
import os
import sys

VERIF_DIR = os.path.dirname(os.path.dirname(os.path.abspath(__file__)))
REPO = os.path.realpath(os.environ.get("VERIF_REPO", "/repo"))
_done = False


def bootstrap():
    global _done
    if _done:
        return
    _done = True
    os.environ.setdefault("JAX_PLATFORMS", "cpu")
    os.environ.setdefault(
        "XLA_FLAGS",
        "--xla_cpu_multi_thread_eigen=false intra_op_parallelism_threads=1 "
        "--xla_force_host_platform_device_count=1",
    )
    os.environ.setdefault("OMP_NUM_THREADS", "1")
    os.environ.setdefault("OPENBLAS_NUM_THREADS", "1")
    os.environ.setdefault("MKL_NUM_THREADS", "1")
    if REPO in sys.path:
        sys.path.remove(REPO)
    sys.path.insert(0, REPO)
    import warnings

    warnings.filterwarnings("ignore")
    import jax

    jax.config.update("jax_enable_x64", True)
    if os.environ.get("VERIF_XLA_CACHE", "1") != "0":
        try:
            cache = os.path.join(VERIF_DIR, ".cache", "xla")
            os.makedirs(cache, exist_ok=True)
            jax.config.update("jax_compilation_cache_dir", cache)
            jax.config.update("jax_persistent_cache_min_compile_time_secs", 0.0)
            jax.config.update("jax_persistent_cache_min_entry_size_bytes", -1)
        except Exception:
            pass
    import gaussian_toolbox

    where = os.path.realpath(gaussian_toolbox.__file__)
    if not where.startswith(REPO + os.sep):
        raise RuntimeError(f"gaussian_toolbox imported from {where}, expected under {REPO}")
