from common import *
# C09 round trip
for (Dx,Dy) in ((3,2),(2,3)):
  for (Rc,Rx) in ((1,1),(1,3),(3,1)):
    c=conditional.ConditionalGaussianPDF(M=J(vec(Rc,Dy,Dx)),b=J(vec(Rc,Dy)),Sigma=J(spd(Rc,Dy)))
    px=pdf.GaussianPDF(Sigma=J(spd(Rx,Dx)),mu=J(vec(Rx,Dx)))
    post=c.affine_conditional_transformation(px); py=c.affine_marginal_transformation(px)
    errs=[]
    for r in range(Rc*Rx):
        i=J(np.array([r])); rc=r//Rx; rx=r%Rx
        back=post.slice(i).affine_conditional_transformation(py.slice(i))
        px2=post.slice(i).affine_marginal_transformation(py.slice(i))
        errs.append(max(rel(back.M,np.array(c.M)[rc:rc+1]),rel(back.b,np.array(c.b)[rc:rc+1]),rel(back.Sigma,np.array(c.Sigma)[rc:rc+1]),rel(px2.mu,np.array(px.mu)[rx:rx+1]),rel(px2.Sigma,np.array(px.Sigma)[rx:rx+1])))
    print("roundtrip",(Dx,Dy,Rc,Rx),"max rel err %.1e"%max(errs))
# C11 linear regression three routes
Dw,Dy,N=3,2,5
prior=pdf.GaussianPDF(Sigma=J(spd(1,Dw)),mu=J(vec(1,Dw)))
lik=conditional.ConditionalGaussianPDF(M=J(vec(N,Dy,Dw)),b=J(vec(N,Dy)),Sigma=J(spd(N,Dy)))
y=vec(N,Dy)
# (a) sequential
post=prior; logev=0.
for i in rng.permutation(N):
    li=lik.slice(J(np.array([i])))
    pred=li.affine_marginal_transformation(post); logev+=float(pred.evaluate_ln(J(y[i:i+1]))[0,0])
    post=li.affine_conditional_transformation(post).condition_on_x(J(y[i:i+1]))
# (c) factors
f=lik.set_y(J(y)).product(); un=prior*f; postc=un.get_density(); logev_c=float(un.log_integral()[0])
print("post a vs c", rel(post.mu,postc.mu), rel(post.Sigma,postc.Sigma), "logev a %.6f c %.6f diff %.6f expected KF diff %.6f"%(logev,logev_c,logev_c-logev, -N*(Dw-Dy)/2*np.log(2*np.pi)))
# (b) joint route: one big conditional stacking all obs
Mb=np.array(lik.M).reshape(1,N*Dy,Dw); bb=np.array(lik.b).reshape(1,N*Dy)
Sb=np.zeros((1,N*Dy,N*Dy)); 
for i in range(N): Sb[0,i*Dy:(i+1)*Dy,i*Dy:(i+1)*Dy]=np.array(lik.Sigma)[i]
big=conditional.ConditionalGaussianPDF(M=J(Mb),b=J(bb),Sigma=J(Sb))
joint=big.affine_joint_transformation(prior)
cond=joint.condition_on(J(np.arange(Dw,Dw+N*Dy)))
postb=cond.condition_on_x(J(y.reshape(1,-1)))
print("post a vs b", rel(post.mu,postb.mu), rel(post.Sigma,postb.Sigma), "logev via joint marginal %.6f"%float(joint.get_marginal(J(np.arange(Dw,Dw+N*Dy))).evaluate_ln(J(y.reshape(1,-1)))[0,0]))
# NNControl vs general
import jax
Wn=vec(4, 2*(3+1))
cf=lambda u: jnp.tanh(u)@J(Wn)
nn=conditional.NNControlGaussianConditional(Sigma=J(spd(1,2)),num_cond_dim=3,num_control_dim=4,control_func=cf)
u=J(vec(1,4)); g=nn.set_control_variable(u)
px=pdf.GaussianPDF(Sigma=J(spd(1,3)),mu=J(vec(1,3)))
print("NN joint", rel(nn.affine_joint_transformation(px,u=u).Sigma, g.affine_joint_transformation(px).Sigma), "mi", nn.mutual_information(px,u=u), "ilcy", rel(nn.integrate_log_conditional_y(px,u=u,y=J(vec(1,2))), 0) if False else "")
xx=J(vec(2,3)); print("NN call", rel(nn(xx,u).mu, g(xx).mu), "sety", rel(nn.set_y(J(vec(1,2)),u=u).Lambda, g.set_y(J(vec(1,2))).Lambda) )
