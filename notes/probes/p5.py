from common import *
import itertools
def diagS(R,D): return np.stack([np.diag(np.abs(vec(D))+.5) for _ in range(R)])
def mk_cond(kind,R,Dx,Dy):
    if kind=="full": return conditional.ConditionalGaussianPDF(M=J(vec(R,Dy,Dx)),b=J(vec(R,Dy)),Sigma=J(spd(R,Dy)))
    if kind=="diag": return conditional.ConditionalGaussianDiagPDF(M=J(vec(R,Dy,Dx)),b=J(vec(R,Dy)),Sigma=J(diagS(R,Dy)))
    if kind=="ident": return conditional.ConditionalIdentityGaussianPDF(Sigma=J(spd(R,Dx)))
    if kind=="identdiag": return conditional.ConditionalIdentityDiagGaussianPDF(Sigma=J(diagS(R,Dx)))
def Mb(c,kind,R,Dx):
    if kind in("ident","identdiag"): return np.tile(np.eye(Dx)[None],(R,1,1)), np.zeros((R,Dx))
    return np.array(c.M), np.array(c.b)
def lp_cond(M,b,S,x,y): return mvn_logpdf(y, M@x+b, S)
N=3
for kind in ("full","diag","ident","identdiag"):
  for (Dx,Dy) in ((3,2),(2,3),(2,2)):
    if kind.startswith("ident") and Dx!=Dy: continue
    for (Rc,Rx) in ((1,1),(1,3),(3,1)):
        c=mk_cond(kind,Rc,Dx,Dy); M,b=Mb(c,kind,Rc,Dx); S=np.array(c.Sigma)
        px=pdf.GaussianPDF(Sigma=J(spd(Rx,Dx)),mu=J(vec(Rx,Dx)))
        mx=np.array(px.mu); Sx=np.array(px.Sigma)
        x=vec(N,Dx); y=vec(N,Dy); xy=np.hstack([x,y])
        tag="%s Dx%dDy%d Rc%dRx%d"%(kind,Dx,Dy,Rc,Rx)
        # truth for joint: component r = rc*Rx+rx
        want=np.array([[lp_cond(M[rc],b[rc],S[rc],x[n],y[n])+mvn_logpdf(x[n],mx[rx],Sx[rx]) for n in range(N)] for rc in range(Rc) for rx in range(Rx)])
        try:
            j=c.affine_joint_transformation(px)
            got=np.array(j.evaluate_ln(J(xy)))
            I=np.einsum('rab,rbc->rac',np.array(j.Sigma),np.array(j.Lambda))
            print(tag,"JOINT err %.1e SigLam %.1e lndet %.1e"%(np.max(np.abs(got-want)),np.max(np.abs(I-np.eye(Dx+Dy))),np.max(np.abs(np.array(j.ln_det_Sigma)-np.linalg.slogdet(np.array(j.Sigma))[1]))))
        except Exception as e: print(tag,"JOINT FAIL",type(e).__name__,str(e)[:90])
        # marginal truth
        wantm=np.array([[mvn_logpdf(y[n],M[rc]@mx[rx]+b[rc],S[rc]+M[rc]@Sx[rx]@M[rc].T) for n in range(N)] for rc in range(Rc) for rx in range(Rx)])
        try:
            pm=c.affine_marginal_transformation(px)
            print(tag,"MARG err %.1e"%np.max(np.abs(np.array(pm.evaluate_ln(J(y)))-wantm)))
        except Exception as e: print(tag,"MARG FAIL",type(e).__name__,str(e)[:90])
        try:
            post=c.affine_conditional_transformation(px)
            py=post.condition_on_x(J(y))  # [R*N]
            l=np.array(py.evaluate_ln(J(x))).reshape(Rc*Rx,N,N)[:,np.arange(N),np.arange(N)]
            print(tag,"COND bayes err %.1e"%np.max(np.abs(l+wantm-want)))
        except Exception as e: print(tag,"COND FAIL",type(e).__name__,str(e)[:90])
    # set_y
    for (Rc,Ny) in ((1,1),(1,4),(3,3)):
        c=mk_cond(kind,Rc,Dx,Dy); M,b=Mb(c,kind,Rc,Dx); S=np.array(c.Sigma)
        y=vec(Ny,Dy); x=vec(N,Dx)
        try:
            f=c.set_y(J(y))
            got=np.array(f.evaluate_ln(J(x)))
            want=np.array([[lp_cond(M[i if Rc>1 else 0],b[i if Rc>1 else 0],S[i if Rc>1 else 0],x[n],y[i]) for n in range(N)] for i in range(Ny)])
            d=got-want
            print("%s Dx%dDy%d Rc%d Ny%d"%(kind,Dx,Dy,Rc,Ny),"SET_Y err %.3e (expected const %.3e) R=%d shapes %s %s %s"%(np.max(np.abs(d)),(Dy-Dx)/2*np.log(2*np.pi),f.R,f.Lambda.shape,f.nu.shape,f.ln_beta.shape))
        except Exception as e: print("%s Dx%dDy%d Rc%d Ny%d"%(kind,Dx,Dy,Rc,Ny),"SET_Y FAIL",type(e).__name__,str(e)[:90])
