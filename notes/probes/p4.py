from common import *
def check_pdf(p, name):
    """independent check that p is a proper normalised gaussian: uses mu,Sigma as truth and compares evaluate_ln, Lambda, lndet"""
    Sig=np.array(p.Sigma); mu=np.array(p.mu); R,D=mu.shape
    x=vec(4,D)
    got=np.array(p.evaluate_ln(J(x)))
    want=np.stack([[mvn_logpdf(x[n],mu[r],Sig[r]) for n in range(4)] for r in range(R)])
    I=np.einsum('rab,rbc->rac',Sig,np.array(p.Lambda))
    print("   ",name,"R=%d D=%d"%(R,D),"eval err %.1e"%np.max(np.abs(got-want)),"SigLam-I %.1e"%np.max(np.abs(I-np.eye(D))),
          "lndet err %.1e"%np.max(np.abs(np.array(p.ln_det_Sigma)-np.linalg.slogdet(Sig)[1])), "integral",np.array(p.integrate()).round(6)[:3])
# C02 constructors
R,D=2,3
S=spd(R,D); m=vec(R,D); L=np.linalg.inv(S); ld=np.linalg.slogdet(S)[1]
check_pdf(pdf.GaussianPDF(Sigma=J(S),mu=J(m)),"Sigma only")
check_pdf(pdf.GaussianPDF(Sigma=J(S),mu=J(m),Lambda=J(L)),"Sigma+Lambda")
check_pdf(pdf.GaussianPDF(Sigma=J(S),mu=J(m),Lambda=J(L),ln_det_Sigma=J(ld)),"Sigma+Lambda+lndet")
Sd=np.stack([np.diag(np.abs(vec(D))+.5) for _ in range(R)])
check_pdf(pdf.GaussianDiagPDF(Sigma=J(Sd),mu=J(m)),"diag Sigma only")
check_pdf(pdf.GaussianDiagPDF(Sigma=J(Sd),mu=J(m),Lambda=J(np.linalg.inv(Sd))),"diag Sigma+Lambda")
# C05 marginal
p=pdf.GaussianPDF(Sigma=J(spd(3,4)),mu=J(vec(3,4)))
for dims in ([2,0],[3,1,0,2],[1]):
    q=p.get_marginal(J(np.array(dims)))
    print("marginal",dims, rel(q.mu,np.array(p.mu)[:,dims]), rel(q.Sigma,np.array(p.Sigma)[:,dims][:,:,dims])); check_pdf(q,"marg")
pd_=pdf.GaussianDiagPDF(Sigma=J(np.stack([np.diag(np.abs(vec(4))+.5) for _ in range(3)])),mu=J(vec(3,4)))
q=pd_.get_marginal(J(np.array([2,0]))); check_pdf(q,"diag marg "+type(q).__name__)
W=vec(3,2,4); b=vec(3,2)
q=p.get_density_of_linear_sum(J(W),J(b)); print("linsum", rel(q.mu, np.einsum('rkd,rd->rk',W,np.array(p.mu))+b), rel(q.Sigma,np.einsum('rkd,rde,rle->rkl',W,np.array(p.Sigma),W))); check_pdf(q,"linsum")
mu_before=np.array(p.mu).copy()
q=p.get_density_of_linear_sum(J(W)); print("linsum nob", rel(q.mu, np.einsum('rkd,rd->rk',W,np.array(p.mu))), "p.mu unchanged", np.array_equal(mu_before,np.array(p.mu)))
# W with R=1 against p R=3 ?
try:
    q=p.get_density_of_linear_sum(J(W[:1]),J(b[:1])); print("linsum W R=1: R=",q.R)
except Exception as e: print("linsum W R=1 FAIL",type(e).__name__,str(e)[:80])
# C06 condition_on
p=pdf.GaussianPDF(Sigma=J(spd(3,5)),mu=J(vec(3,5)))
for dy in ([1,3],[3,1],[4,0,2],[0],[4,3,2,1]):
    dy=np.array(dy); dx=np.setdiff1d(np.arange(5),dy)
    c=p.condition_on(J(dy)); marg=p.get_marginal(J(dy))
    x=vec(4,5)
    cx=c.condition_on_x(J(x[:,dy]))  # R*N
    lhs=np.array(cx.evaluate_ln(J(x[:,dx])))  # [R*N, N]
    lhs=lhs.reshape(3,4,4)[:,np.arange(4),np.arange(4)]
    tot=lhs+np.array(marg.evaluate_ln(J(x[:,dy])))
    print("cond_on",dy,"prod rule err %.1e"%np.max(np.abs(tot-np.array(p.evaluate_ln(J(x))))))
    c2=p.condition_on_explicit(J(dy),J(dx)); print("   explicit same:",rel(c2.M,c.M),rel(c2.b,c.b),rel(c2.Sigma,c.Sigma))
    dxp=dx[::-1].copy()
    if len(dxp)>1:
        c3=p.condition_on_explicit(J(dy),J(dxp))
        cx3=c3.condition_on_x(J(x[:,dy])); l3=np.array(cx3.evaluate_ln(J(x[:,dxp]))).reshape(3,4,4)[:,np.arange(4),np.arange(4)]
        print("   explicit reversed rows err %.1e"%np.max(np.abs(l3-lhs)))
