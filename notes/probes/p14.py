from common import *
import itertools
from numpy.polynomial.hermite_e import hermegauss
def gh(mu,Sig,n):
    D=len(mu); z,w=hermegauss(n); w=w/np.sqrt(2*np.pi)
    Z=np.array(list(itertools.product(z,repeat=D))); Wt=np.prod(np.array(list(itertools.product(w,repeat=D))),1)
    L=np.linalg.cholesky(Sig); return mu+Z@L.T, Wt
def lnp_cond(c,x,y):
    # elementwise ln p(y_n|x_n) using the object's own condition_on_x
    cx=c.condition_on_x(J(x)); return np.array(cx.evaluate_ln(J(y),element_wise=True))
AC=approximate_conditional
def mk(name,Dx,Dy,Dk):
    if name=="LRBF": return AC.LRBFGaussianConditional(M=J(vec(1,Dy,Dx+Dk)),b=J(vec(1,Dy)),mu=J(vec(Dk,Dx)),length_scale=J(np.abs(vec(Dk,Dx))+.7),Sigma=J(spd(1,Dy)))
    if name=="LSEM": return AC.LSEMGaussianConditional(M=J(vec(1,Dy,Dx+Dk)),b=J(vec(1,Dy)),W=J(0.7*vec(Dk,Dx+1)),Sigma=J(spd(1,Dy)))
    if name=="lin": return conditional.ConditionalGaussianPDF(M=J(vec(1,Dy,Dx)),b=J(vec(1,Dy)),Sigma=J(spd(1,Dy)))
    if name=="ident": return conditional.ConditionalIdentityGaussianPDF(Sigma=J(spd(1,Dx)))
    if name=="identdiag": return conditional.ConditionalIdentityDiagGaussianPDF(Sigma=J(np.diag(np.abs(vec(Dx))+.5)[None]))
for name in ("lin","ident","identdiag","LRBF","LSEM"):
  for (Dx,Dy,Dk) in ((1,1,2),(1,2,1),(2,1,2)):
    if name.startswith("ident"): Dy=Dx
    c=mk(name,Dx,Dy,Dk)
    for Rq in (1,2):
        q=pdf.GaussianPDF(Sigma=J(spd(Rq,Dy+Dx)),mu=J(vec(Rq,Dy+Dx)))
        try:
            got=np.array(c.integrate_log_conditional(q))
        except Exception as e: print(name,(Dx,Dy,Dk),"Rq",Rq,"ILC FAIL",type(e).__name__,str(e)[:100]); continue
        want=[]
        for r in range(Rq):
            res=[]
            for n in ((24,36) if Dx+Dy>2 else (60,90)):
                X,W=gh(np.array(q.mu)[r],np.array(q.Sigma)[r],n)
                res.append(W@lnp_cond(c,X[:,Dy:],X[:,:Dy]))
            want.append(res)
        want=np.array(want)
        print(name,(Dx,Dy,Dk),"Rq",Rq,"ILC err %.1e (quad conv %.1e)"%(np.max(np.abs(got-want[:,1])),np.max(np.abs(want[:,0]-want[:,1]))))
    # integrate_log_conditional_y
    px=pdf.GaussianPDF(Sigma=J(spd(1,Dx)),mu=J(vec(1,Dx))); y=vec(3,Dy)
    X,W=gh(np.array(px.mu)[0],np.array(px.Sigma)[0],80 if Dx==1 else 50)
    want=np.array([W@lnp_cond(c,X,np.tile(y[n],(len(X),1))) for n in range(3)])
    try:
        f=c.integrate_log_conditional_y(px); g1=np.array(f(J(y))); g2=np.array(c.integrate_log_conditional_y(px,y=J(y)))
        print(name,(Dx,Dy,Dk),"ILCY callable err %.1e evaluated err %.1e"%(np.max(np.abs(g1-want)),np.max(np.abs(g2-want))))
    except Exception as e: print(name,(Dx,Dy,Dk),"ILCY FAIL",type(e).__name__,str(e)[:100])
