from common import *
AC=approximate_conditional
classes={"exp":AC.HeteroscedasticExpConditional,"cosh":AC.HeteroscedasticCoshM1Conditional,"step":AC.HeteroscedasticHeavisideConditional,"relu":AC.HeteroscedasticReLUConditional}
Dx,Dy,Da,Dk=2,2,2,2
M=vec(1,Dy,Dx); b=vec(1,Dy); A=vec(1,Dy,Da)+np.eye(2)[None]; Wk=0.5*vec(Dk,Dx+1)
px=pdf.GaussianPDF(Sigma=J(spd(3,Dx)),mu=J(vec(3,Dx)))
for name,cls in classes.items():
    c=cls(M=J(M),b=J(b),A=J(A),W=J(Wk))
    for op in ("affine_marginal_transformation","affine_joint_transformation","affine_conditional_transformation"):
        try:
            full=getattr(c,op)(px)
            errs=[]
            for r in range(3):
                one=getattr(c,op)(px.slice(J(np.array([r]))))
                errs.append(rel(np.array(full.Sigma)[r:r+1],one.Sigma))
            print(name,op,"R=",full.Sigma.shape[0],"slice-commute err",errs)
        except Exception as e: print(name,op,"FAIL",type(e).__name__,str(e)[:100])
    # Dk=1 too
