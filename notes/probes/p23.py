from common import *
import sys
from scipy import integrate as sint
AC=approximate_conditional
classes={"exp":AC.HeteroscedasticExpConditional,"cosh":AC.HeteroscedasticCoshM1Conditional,"step":AC.HeteroscedasticHeavisideConditional,"relu":AC.HeteroscedasticReLUConditional}
link={"exp":np.exp,"cosh":lambda h:np.cosh(h)-1,"step":lambda h:(h>=0)*1.0,"relu":lambda h:np.maximum(h,0)}
rng=np.random.default_rng(int(sys.argv[1]))
def v(*s): return rng.normal(size=s)
def truth_reduction(name,M,b,A,Wk,m,S,y):
    w=Wk[0,1:]; w0=Wk[0,0]; mh=w@m+w0; sh2=w@S@w; sh=np.sqrt(sh2)
    d0=y-b-M@m; d1=-M@S@w/sh2; C=M@(S-np.outer(S@w,S@w)/sh2)@M.T
    ak=A[:,0]; Dy=len(y)
    def g(h):
        Sig=A@A.T+np.outer(ak,ak)*link[name](h); Si=np.linalg.inv(Sig); e=d0+d1*(h-mh)
        return -0.5*(e@Si@e+np.trace(Si@C)+np.linalg.slogdet(Sig)[1]+Dy*np.log(2*np.pi))*np.exp(-0.5*((h-mh)/sh)**2)/np.sqrt(2*np.pi)/sh
    pts=[0.0] if abs(mh)<10*sh else None
    val,err=sint.quad(g,mh-10*sh,mh+10*sh,points=pts,epsabs=1e-13,epsrel=1e-13,limit=400)
    return val,err
for name,cls in classes.items():
  for trial in range(4):
    Dx=int(rng.integers(2,4)); Dy=int(rng.integers(1,3)); Da=Dy; Dk=1
    M=v(1,Dy,Dx); b=v(1,Dy); A=v(1,Dy,Da)+np.eye(Dy)[None]; Wk=0.5*v(Dk,Dx+1)
    if np.linalg.cond(A[0]@A[0].T)>1e3: continue
    c=cls(M=J(M),b=J(b),A=J(A),W=J(Wk))
    S=spd(1,Dx); m=v(1,Dx); px=pdf.GaussianPDF(Sigma=J(S),mu=J(m)); y=v(1,Dy)
    lb=float(np.array(c.integrate_log_conditional_y(px,y=J(y))).ravel()[0])
    t,err=truth_reduction(name,M[0],b[0],A[0],Wk,m[0],S[0],y[0])
    print(name,"Dx",Dx,"Dy",Dy,"lb %.8f truth %.8f gap %.2e (quad err %.0e)"%(lb,t,t-lb,err))
