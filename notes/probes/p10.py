from common import *
import sys
from scipy import integrate as sint
AC=approximate_conditional
classes={"exp":AC.HeteroscedasticExpConditional,"cosh":AC.HeteroscedasticCoshM1Conditional,"step":AC.HeteroscedasticHeavisideConditional,"relu":AC.HeteroscedasticReLUConditional}
link={"exp":np.exp,"cosh":lambda h:np.cosh(h)-1,"step":lambda h:(h>=0)*1.0,"relu":lambda h:np.maximum(h,0)}
def true_cov(A,Wk,x,lk):
    Dk=Wk.shape[0]; h=Wk[:,1:]@x+Wk[:,0]; Ak=A[:,:Dk]
    return A@A.T+Ak@np.diag(lk(h))@Ak.T
def expect_1d(fn,mu,sig,breaks):
    pts=sorted([b for b in breaks if abs(b-mu)<10*sig])
    val,err=sint.quad(lambda x: fn(x)*np.exp(-0.5*((x-mu)/sig)**2)/np.sqrt(2*np.pi)/sig, mu-10*sig, mu+10*sig, points=pts or None, epsabs=1e-13, epsrel=1e-13, limit=500)
    return val,err
seed=int(sys.argv[1]); rng=np.random.default_rng(seed)
def v(*s): return rng.normal(size=s)
worst={}
for it in range(int(sys.argv[2])):
  for name,cls in classes.items():
    Dx=1; Dy=int(rng.integers(1,4)); Da=Dy; Dk=int(rng.integers(1,Da+1))
    M=v(1,Dy,Dx); b=v(1,Dy); A=v(1,Dy,Da)+np.eye(Dy)[None]
    if np.linalg.cond(A[0]@A[0].T)>1e3: continue

    sc=rng.choice([0.1,0.5,1.0]); Wk=sc*v(Dk,Dx+1)
    N=int(rng.integers(1,4))
    c=cls(M=J(M),b=J(b),A=J(A),W=J(Wk))
    mus=v(N,Dx); sig=np.abs(v(N,1,1))+.3
    px=pdf.GaussianPDF(Sigma=J(sig**2),mu=J(mus)); y=v(N,Dy)
    brk=[-Wk[k,0]/Wk[k,1] for k in range(Dk)]
    try:
        lb=np.array(c.integrate_log_conditional_y(px,y=J(y))).ravel()
    except Exception as e:
        print("FAIL",name,Dy,Dk,N,type(e).__name__,str(e)[:100]); continue
    for n in range(N):
        def lnp(t):
            xx=np.array([t]); return mvn_logpdf(y[n],M[0]@xx+b[0],true_cov(A[0],Wk,xx,link[name]))
        truth,err=expect_1d(lnp,mus[n,0],sig[n,0,0],brk)
        gap=truth-lb[n]
        key=name
        w=worst.setdefault(key,[np.inf,-np.inf,0])
        w[0]=min(w[0],gap); w[1]=max(w[1],gap); w[2]+=1
        if gap<-1e-7 or (name=="step" and abs(gap)>1e-6*max(1,abs(truth))):
            print("VIOL",name,"Dy",Dy,"Dk",Dk,"N",N,"n",n,"sc",sc,"lb",lb[n],"truth",truth,"gap",gap,"quaderr",err)
print({k:(float(a),float(b),c) for k,(a,b,c) in worst.items()})
