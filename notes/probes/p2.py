import jax, numpy as np, types, traceback
jax.config.update("jax_enable_x64", True)
from jax import numpy as jnp
# emulate the small fix: provide unzip2
def unzip2(xys):
    xs=[];ys=[]
    for x,y in xys: xs.append(x); ys.append(y)
    return tuple(xs), tuple(ys)
jax.util = types.SimpleNamespace(unzip2=unzip2)
from gaussian_toolbox import factor, measure, pdf, conditional, approximate_conditional
from gaussian_toolbox.experimental import truncated_measure
rng=np.random.default_rng(0)
def spd(R,D):
    A=rng.normal(size=(R,D,D)); return jnp.array(A@A.transpose(0,2,1)+np.eye(D))
def vec(*s): return jnp.array(rng.normal(size=s))
R,D=2,3
objs = {
 "ConjugateFactor": factor.ConjugateFactor(Lambda=spd(R,D), nu=vec(R,D), ln_beta=vec(R)),
 "OneRankFactor": factor.OneRankFactor(v=vec(R,D), g=jnp.abs(vec(R)), nu=vec(R,D), ln_beta=vec(R)),
 "LinearFactor": factor.LinearFactor(nu=vec(R,D), ln_beta=vec(R)),
 "ConstantFactor": factor.ConstantFactor(ln_beta=vec(R), num_dim=D),
 "GaussianMeasure": measure.GaussianMeasure(Lambda=spd(R,D), nu=vec(R,D), ln_beta=vec(R)),
 "GaussianDiagMeasure": measure.GaussianDiagMeasure(Lambda=jnp.array(np.eye(D)[None]*np.ones((R,1,1))*2.), nu=vec(R,D), ln_beta=vec(R)),
 "GaussianPDF": pdf.GaussianPDF(Sigma=spd(R,D), mu=vec(R,D)),
 "GaussianDiagPDF": pdf.GaussianDiagPDF(Sigma=jnp.array(np.eye(D)[None]*np.ones((R,1,1))*2.), mu=vec(R,D)),
 "ConditionalGaussianPDF": conditional.ConditionalGaussianPDF(M=vec(R,2,D), b=vec(R,2), Sigma=spd(R,2)),
 "ConditionalGaussianDiagPDF": conditional.ConditionalGaussianDiagPDF(M=vec(R,2,D), b=vec(R,2), Sigma=jnp.array(np.eye(2)[None]*np.ones((R,1,1))*2.)),
 "ConditionalIdentityGaussianPDF": conditional.ConditionalIdentityGaussianPDF(Sigma=spd(R,D)),
 "ConditionalIdentityDiagGaussianPDF": conditional.ConditionalIdentityDiagGaussianPDF(Sigma=jnp.array(np.eye(D)[None]*np.ones((R,1,1))*2.)),
}
x = vec(4,D)
for name,o in objs.items():
    for warmed in (False, True):
        try:
            if warmed and hasattr(o,'integrate'): o.integrate("x")
            leaves, td = jax.tree_util.tree_flatten(o)
            o2 = jax.tree_util.tree_unflatten(td, leaves)
            ok = "roundtrip ok"
            if hasattr(o,'evaluate_ln'):
                ok += " eval-equal=%s" % bool(jnp.allclose(o.evaluate_ln(x), o2.evaluate_ln(x)))
            print(name, "warmed" if warmed else "cold", ok, "nleaves", len(leaves))
        except Exception as e:
            print(name, "warmed" if warmed else "cold", "FAIL", type(e).__name__, str(e)[:150])
# to_dict / from_dict
for name,o in objs.items():
    if hasattr(o,'to_dict'):
        try:
            o2 = type(o).from_dict(o.to_dict())
            print("dict", name, "ok", bool(jnp.allclose(o.evaluate_ln(x), o2.evaluate_ln(x))))
        except Exception as e:
            print("dict", name, "FAIL", type(e).__name__, str(e)[:150])
