from common import *
import itertools
from numpy.polynomial.hermite_e import hermegauss
def gh(mu,Sig,n=60):
    D=len(mu); z,w=hermegauss(n); w=w/np.sqrt(2*np.pi)
    Z=np.array(list(itertools.product(z,repeat=D))); Wt=np.prod(np.array(list(itertools.product(w,repeat=D))),1)
    L=np.linalg.cholesky(Sig); return mu+Z@L.T, Wt
def moments_of_cond(c,px_mu,px_Sig,n=60):
    X,W=gh(px_mu,px_Sig,n)
    cx=c.condition_on_x(J(X)); m=np.array(cx.mu); S=np.array(cx.Sigma)
    Ey=W@m; Eyy=np.einsum('n,nab->ab',W,S+np.einsum('na,nb->nab',m,m)); Eyx=np.einsum('n,na,nb->ab',W,m,X)
    Ex=W@X
    return Ey, Eyy-np.outer(Ey,Ey), Eyx-np.outer(Ey,Ex)
for name in ("LRBF","LSEM"):
  for (Dx,Dy,Dk) in ((1,2,2),(2,1,3),(2,3,1)):
    M=vec(1,Dy,Dx+Dk); b=vec(1,Dy); S=spd(1,Dy)
    if name=="LRBF":
        c=approximate_conditional.LRBFGaussianConditional(M=J(M),b=J(b),mu=J(vec(Dk,Dx)),length_scale=J(np.abs(vec(Dk,Dx))+.5),Sigma=J(S))
    else:
        Wk=vec(Dk,Dx+1)
        c=approximate_conditional.LSEMGaussianConditional(M=J(M),b=J(b),W=J(Wk),Sigma=J(S))
    for Rx in (1,2):
        px=pdf.GaussianPDF(Sigma=J(spd(Rx,Dx)),mu=J(vec(Rx,Dx)))
        pm=c.affine_marginal_transformation(px); pj=c.affine_joint_transformation(px); pc=c.affine_conditional_transformation(px)
        for r in range(Rx):
            Ey,Cy,Cyx=moments_of_cond(c,np.array(px.mu)[r],np.array(px.Sigma)[r], 80 if Dx==1 else 40)
            Sj=np.array(pj.Sigma)[r]
            # conditional of the joint
            Mx=Cyx.T@np.linalg.inv(Cy)
            print(name,(Dx,Dy,Dk),"Rx",Rx,"r",r,"marg mu %.1e Sig %.1e | joint mu %.1e cross %.1e Sxx %.1e | cond M %.1e"%(
                np.max(np.abs(np.array(pm.mu)[r]-Ey)),np.max(np.abs(np.array(pm.Sigma)[r]-Cy)),
                np.max(np.abs(np.array(pj.mu)[r]-np.concatenate([np.array(px.mu)[r],Ey]))),
                np.max(np.abs(Sj[Dx:,:Dx]-Cyx)), np.max(np.abs(Sj[:Dx,:Dx]-np.array(px.Sigma)[r])),
                np.max(np.abs(np.array(pc.M)[r]-Mx))))
    # unit height
    if name=="LRBF":
        print("   k at centre", np.array(c.k_func.evaluate(c.mu)).diagonal())
    else:
        W_=np.array(c.W); w0=np.array(c.w0)
        xs=np.stack([-w0[k]*W_[k]/(W_[k]@W_[k]) for k in range(Dk)])  # where w'x + w0 = 0
        xs2=np.stack([w0[k]*W_[k]/(W_[k]@W_[k]) for k in range(Dk)])  # where w'x - w0 = 0
        print("   k at w'x+w0=0:", np.array(c.k_func.evaluate(J(xs))).diagonal(), " at w'x-w0=0:", np.array(c.k_func.evaluate(J(xs2))).diagonal())
    # mean read-out
    x=vec(3,Dx); phi=np.array(c.evaluate_phi(J(x)))
    print("   mean readout err", rel(c.condition_on_x(J(x)).mu, phi@M[0].T+b[0]), "phi[:, :Dx]==x", np.allclose(phi[:,:Dx],x))
