from common import *
import itertools
from numpy.polynomial.hermite_e import hermegauss
def gh_nodes(mu,Sig,n=4):
    D=len(mu); z,w=hermegauss(n); w=w/np.sqrt(2*np.pi)
    Z=np.array(list(itertools.product(z,repeat=D))); Wt=np.prod(np.array(list(itertools.product(w,repeat=D))),1)
    L=np.linalg.cholesky(Sig); return mu+Z@L.T, Wt
def E(fn,mu,Sig):
    X,W=gh_nodes(mu,Sig); vals=np.array([fn(x) for x in X]); return np.tensordot(W,vals,axes=(0,0))
def aff(A,a): return lambda x: A@x+a
exprs={
 "x": (lambda c: lambda x: x, []),
 "(Ax+a)": (lambda c: lambda x: c['A']@x+c['a'], ['A']),
 "xx'": (lambda c: lambda x: np.outer(x,x), []),
 "(Ax+a)'(Bx+b)": (lambda c: lambda x: (c['A']@x+c['a'])@(c['B']@x+c['b']), ['A','B'], 'KK'),
 "(Ax+a)(Bx+b)'": (lambda c: lambda x: np.outer(c['A']@x+c['a'],c['B']@x+c['b']), ['A','B'], 'KL'),
 "(Ax+a)(Bx+b)'(Cx+c)": (lambda c: lambda x: (c['A']@x+c['a'])*((c['B']@x+c['b'])@(c['C']@x+c['c'])), ['A','B','C'], 'KLL'),
 "(Ax+a)'(Bx+b)(Cx+c)'": (lambda c: lambda x: ((c['A']@x+c['a'])@(c['B']@x+c['b']))*(c['C']@x+c['c']), ['A','B','C'], 'KKL'),
 "(Ax+a)'(Bx+b)(Cx+c)'(Dx+d)": (lambda c: lambda x: ((c['A']@x+c['a'])@(c['B']@x+c['b']))*((c['C']@x+c['c'])@(c['D']@x+c['d'])), ['A','B','C','D'], 'KKLL'),
 "(Ax+a)(Bx+b)'(Cx+c)(Dx+d)'": (lambda c: lambda x: np.outer(c['A']@x+c['a'],c['D']@x+c['d'])*((c['B']@x+c['b'])@(c['C']@x+c['c'])), ['A','B','C','D'], 'KLLM'),
}
D=3; dims={'K':2,'L':4,'M':5}
for R in (1,3):
  u=measure.GaussianMeasure(Lambda=J(spd(R,D)),nu=J(vec(R,D)),ln_beta=J(vec(R)))
  Lam=np.array(u.Lambda); Sig=np.linalg.inv(Lam); mu=np.einsum('rab,rb->ra',Sig,np.array(u.nu))
  mass=np.exp(np.array(u.ln_beta)+0.5*np.einsum('ra,ra->r',np.array(u.nu),mu)+0.5*D*np.log(2*np.pi)+0.5*np.linalg.slogdet(Sig)[1])
  for key,spec in exprs.items():
    names=spec[1]; shp=spec[2] if len(spec)>2 else 'K'*len(names)
    for mode in ("shared","percomp","mixed","defaults_vec","defaults_mat"):
        kw={}; cs=[{} for _ in range(R)]
        ok=True
        for i,(nm,sh) in enumerate(zip(names,shp)):
            K=dims[sh]
            per_mat = mode=="percomp" or (mode=="mixed" and i%2==0)
            per_vec = mode=="percomp" or (mode=="mixed" and i%2==1)
            if mode=="defaults_mat":
                # omit matrix: identity => K must be D
                Am=None; K=D
            else:
                Am = vec(R,K,D) if per_mat else vec(K,D)
            av = None if mode=="defaults_vec" else (vec(R,K) if per_vec else vec(K))
            if Am is not None: kw[nm+"_mat"]=J(Am)
            if av is not None: kw[nm.lower()+"_vec"]=J(av)
            for r in range(R):
                cs[r][nm]= (np.eye(D) if Am is None else (Am[r] if Am.ndim==3 else Am))
                cs[r][nm.lower()]= (np.zeros(K) if av is None else (av[r] if av.ndim==2 else av))
        if mode!="shared" and not names: continue
        try:
            got=np.array(u.integrate(key,**kw))
            want=np.stack([mass[r]*E(spec[0](cs[r]),mu[r],Sig[r]) for r in range(R)])
            print("R%d %-30s %-12s err %s"%(R,key,mode,rel(got,want)))
        except Exception as e:
            print("R%d %-30s %-12s FAIL %s %s"%(R,key,mode,type(e).__name__,str(e)[:100]))
  # x(A'x+a)x' and xb'xx'
  for per in (False,True):
    A=vec(R,1,D) if per else vec(1,D); a=vec(R,1) if per else vec(1)
    got=np.array(u.integrate("x(A'x + a)x'",A_mat=J(A),a_vec=J(a)))
    want=np.stack([mass[r]*E(lambda x:np.outer(x,x)*((A[r,0] if per else A[0])@x+(a[r,0] if per else a[0])),mu[r],Sig[r]) for r in range(R)])
    print("R%d x(A'x+a)x' per=%s err %s"%(R,per,rel(got,want)))
    b=vec(R,D) if per else vec(D)
    got=np.array(u.integrate("xb'xx'",b_vec=J(b)))
    want=np.stack([mass[r]*E(lambda x:np.outer(x,x)*((b[r] if per else b)@x),mu[r],Sig[r]) for r in range(R)])
    print("R%d xb'xx' per=%s err %s"%(R,per,rel(got,want)))
