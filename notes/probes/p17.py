from common import *
from scipy import integrate as sint, stats
TM=truncated_measure
# far tail behaviour
p=pdf.GaussianPDF(Sigma=J(np.ones((1,1,1))),mu=J(np.zeros((1,1))))
for (a,b) in ((5,6),(8,9),(10,12),(-12,-10),(20,21),(37,40)):
    t=TM.TruncatedGaussianMeasure(measure=p,lower_limit=J(float(a)),upper_limit=J(float(b)))
    got=[float(np.array(t.integrate(k,**kw)).ravel()[0]) for k,kw in (("1",{}),("x",{}),("x**2",{}),("x**k",{"k":3}))]
    want=[sint.quad(lambda x:x**k*stats.norm.pdf(x),a,b,epsabs=0,epsrel=1e-12)[0] for k in range(4)]
    print((a,b),"got",["%.3e"%g for g in got],"want",["%.3e"%w for w in want])
# one-sided far: lower=-inf upper=-9
t=TM.TruncatedGaussianMeasure(measure=p,upper_limit=J(-9.0)); print("(-inf,-9)", float(t.integrate()[0]), stats.norm.cdf(-9), float(t.integrate("x")[0,0]), -stats.norm.pdf(-9))
t=TM.TruncatedGaussianMeasure(measure=p,lower_limit=J(9.0)); print("(9,inf)", float(t.integrate()[0]), stats.norm.sf(9), float(t.integrate("x")[0,0]), stats.norm.pdf(9))
# additivity
u=measure.GaussianMeasure(Lambda=J(np.abs(vec(2,1,1))+.3),nu=J(vec(2,1)),ln_beta=J(vec(2)))
cut=0.37
l=TM.TruncatedGaussianMeasure(measure=u,upper_limit=J(cut)); r=TM.TruncatedGaussianMeasure(measure=u,lower_limit=J(cut))
for key,kw,ukey,ukw in (("1",{},"1",{}),("x",{},"x",{}),("x**2",{},"xx'",{})):
    tot=np.array(l.integrate(key,**kw)).ravel()+np.array(r.integrate(key,**kw)).ravel(); full=np.array(u.integrate(ukey,**ukw)).ravel()
    print("additivity",key,rel(tot,full))
# limits given per-component arrays
t=TM.TruncatedGaussianMeasure(measure=u,lower_limit=J(np.array([[-1.],[0.5]])),upper_limit=J(np.array([[0.],[np.inf]])))
print("per-component limits ok", np.array(t.integrate()).shape)
