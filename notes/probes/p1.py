import jax, numpy as np
jax.config.update("jax_enable_x64", True)
from jax import numpy as jnp
from gaussian_toolbox import factor, measure, pdf, conditional, approximate_conditional
print(jax.__version__, hasattr(jax.util,'unzip2') if hasattr(jax,'util') else 'no jax.util')
rng=np.random.default_rng(0)
def spd(R,D):
    A=rng.normal(size=(R,D,D)); return jnp.array(A@A.transpose(0,2,1)+np.eye(D))
p=pdf.GaussianPDF(Sigma=spd(2,3), mu=jnp.array(rng.normal(size=(2,3))))
try:
    leaves, td = jax.tree_util.tree_flatten(p)
    print("flatten ok", len(leaves))
except Exception as e:
    print("flatten fail:", type(e).__name__, e)
try:
    f=jax.jit(lambda q: q.integrate("x"))
    print(f(p))
except Exception as e:
    print("jit arg fail:", type(e).__name__, str(e)[:200])
# y == None behaviour
y=jnp.ones((2,3))
print("y==None ->", y==None)
# einsum broadcast
print(jnp.einsum("abc,abd->acd", jnp.ones((1,2,3)), jnp.ones((4,2,3))).shape)
