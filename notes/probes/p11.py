from common import *
import sys
from scipy import integrate as sint
AC=approximate_conditional
classes={"exp":AC.HeteroscedasticExpConditional,"cosh":AC.HeteroscedasticCoshM1Conditional,"step":AC.HeteroscedasticHeavisideConditional,"relu":AC.HeteroscedasticReLUConditional}
link={"exp":np.exp,"cosh":lambda h:np.cosh(h)-1,"step":lambda h:(h>=0)*1.0,"relu":lambda h:np.maximum(h,0)}
def true_cov(A,Wk,x,lk):
    Dk=Wk.shape[0]; h=Wk[:,1:]@x+Wk[:,0]; Ak=A[:,:Dk]
    return A@A.T+Ak@np.diag(lk(h))@Ak.T
def expect_1d(fn,mu,sig,breaks):
    pts=sorted([b for b in breaks if abs(b-mu)<10*sig])
    val,err=sint.quad(lambda x: fn(x)*np.exp(-0.5*((x-mu)/sig)**2)/np.sqrt(2*np.pi)/sig, mu-10*sig, mu+10*sig, points=pts or None, epsabs=1e-14, epsrel=1e-14, limit=500)
    return val
rng=np.random.default_rng(int(sys.argv[1]))
def v(*s): return rng.normal(size=s)
for name,cls in classes.items():
  for trial in range(3):
    Dx=1; Dy=2; Da=2; Dk=int(rng.integers(1,3))
    M=v(1,Dy,Dx); b=v(1,Dy); A=v(1,Dy,Da)+np.eye(2)[None]; W0=v(Dk,Dx+1)
    px=pdf.GaussianPDF(Sigma=J(np.abs(v(1,1,1))+.3),mu=J(v(1,1))); y=v(1,Dy)
    gaps=[]
    for eps in (1.0,1e-1,1e-2,1e-3,0.0):
        Wk=W0.copy(); Wk[:,1:]*=eps
        c=cls(M=J(M),b=J(b),A=J(A),W=J(Wk))
        try: lb=float(np.array(c.integrate_log_conditional_y(px,y=J(y))).ravel()[0])
        except Exception as e: lb=np.nan
        brk=[-Wk[k,0]/Wk[k,1] for k in range(Dk)] if eps>0 else []
        truth=expect_1d(lambda t: mvn_logpdf(y[0],M[0]@np.array([t])+b[0],true_cov(A[0],Wk,np.array([t]),link[name])),float(px.mu[0,0]),float(np.sqrt(px.Sigma[0,0,0])),brk)
        gaps.append(truth-lb)
    print(name,"Dk",Dk,"gaps eps=1,.1,.01,.001,0:",["%.2e"%g for g in gaps])
