import time, jax
jax.config.update("jax_compilation_cache_dir", "/tmp/probe/jaxcache")
jax.config.update("jax_persistent_cache_min_compile_time_secs", 0)
jax.config.update("jax_persistent_cache_min_entry_size_bytes", -1)
t0=time.time()
from common import *
def run(Rc,Rx,Dx,Dy):
    c=conditional.ConditionalGaussianPDF(M=J(vec(Rc,Dy,Dx)),b=J(vec(Rc,Dy)),Sigma=J(spd(Rc,Dy)))
    px=pdf.GaussianPDF(Sigma=J(spd(Rx,Dx)),mu=J(vec(Rx,Dx)))
    j=c.affine_joint_transformation(px); m=c.affine_marginal_transformation(px); k=c.affine_conditional_transformation(px)
    return float(j.evaluate_ln(J(vec(3,Dx+Dy))).sum())
for shp in ((1,1,3,2),(1,1,4,2),(2,1,4,3),(3,1,5,2)):
    t=time.time(); run(*shp); print(shp,"%.2fs"%(time.time()-t))
