from common import *
def H(S): return 0.5*(len(S)*(1+np.log(2*np.pi))+np.sum(np.log(np.linalg.eigvalsh(S))))
def KL(m0,S0,m1,S1):
    L1=np.linalg.inv(S1); d=m1-m0
    return 0.5*(np.trace(L1@S0)+d@L1@d-len(m0)+np.sum(np.log(np.linalg.eigvalsh(S1)))-np.sum(np.log(np.linalg.eigvalsh(S0))))
p=pdf.GaussianPDF(Sigma=J(spd(3,4)),mu=J(vec(3,4)))
print("entropy",rel(p.entropy(),[H(np.array(p.Sigma)[r]) for r in range(3)]))
# -E[ln p] via integrate log u(x)
print("entropy vs -int log u", rel(p.entropy(), -np.array(p.integrate("log u(x)",factor=p))))
for (Ra,Rb) in ((3,3),(1,3),(3,1)):
    a=pdf.GaussianPDF(Sigma=J(spd(Ra,4)),mu=J(vec(Ra,4))); b=pdf.GaussianPDF(Sigma=J(spd(Rb,4)),mu=J(vec(Rb,4)))
    try:
        got=np.array(a.kl_divergence(b)); R=max(Ra,Rb)
        want=[KL(np.array(a.mu)[r%Ra],np.array(a.Sigma)[r%Ra],np.array(b.mu)[r%Rb],np.array(b.Sigma)[r%Rb]) for r in range(R)]
        print("KL",(Ra,Rb),rel(got,want), "self KL", np.max(np.abs(np.array(a.kl_divergence(a)))))
    except Exception as e: print("KL",(Ra,Rb),"FAIL",type(e).__name__,str(e)[:80])
# conditional entropy, MI
for (Dx,Dy) in ((3,2),(2,3)):
  for (Rc,Rx) in ((1,1),(3,1),(1,3)):
    c=conditional.ConditionalGaussianPDF(M=J(vec(Rc,Dy,Dx)),b=J(vec(Rc,Dy)),Sigma=J(spd(Rc,Dy)))
    px=pdf.GaussianPDF(Sigma=J(spd(Rx,Dx)),mu=J(vec(Rx,Dx)))
    M=np.array(c.M);S=np.array(c.Sigma);Sx=np.array(px.Sigma)
    wantce=[H(S[rc]) for rc in range(Rc) for rx in range(Rx)]
    wantmi=[H(S[rc]+M[rc]@Sx[rx]@M[rc].T)-H(S[rc]) for rc in range(Rc) for rx in range(Rx)]
    try:
        print("CE",(Dx,Dy,Rc,Rx),rel(c.conditional_entropy(px),wantce)," MI got",np.array(c.mutual_information(px)).round(4),"want",np.round(wantmi,4))
    except Exception as e: print("CE/MI",(Dx,Dy,Rc,Rx),"FAIL",type(e).__name__,str(e)[:80])
# C14 log factor
u=measure.GaussianMeasure(Lambda=J(spd(3,3)),nu=J(vec(3,3)),ln_beta=J(vec(3)))
Lam=np.array(u.Lambda); Sig=np.linalg.inv(Lam); mu=np.einsum('rab,rb->ra',Sig,np.array(u.nu)); D=3
mass=np.exp(np.array(u.ln_beta)+0.5*np.einsum('ra,ra->r',np.array(u.nu),mu)+0.5*D*np.log(2*np.pi)+0.5*np.linalg.slogdet(Sig)[1])
for Rf in (1,3):
  for nm,f in {"general":factor.ConjugateFactor(Lambda=J(spd(Rf,3)),nu=J(vec(Rf,3)),ln_beta=J(vec(Rf))),
            "rank1":factor.OneRankFactor(v=J(vec(Rf,3)),g=J(np.abs(vec(Rf))),nu=J(vec(Rf,3)),ln_beta=J(vec(Rf))),
            "linear":factor.LinearFactor(nu=J(vec(Rf,3)),ln_beta=J(vec(Rf))),
            "const":factor.ConstantFactor(ln_beta=J(vec(Rf)),num_dim=3)}.items():
    FL=np.array(f.Lambda);fn=np.array(f.nu);fb=np.array(f.ln_beta)
    want=[mass[r]*(-0.5*(np.trace(FL[r%Rf]@Sig[r])+mu[r]@FL[r%Rf]@mu[r])+fn[r%Rf]@mu[r]+fb[r%Rf]) for r in range(3)]
    try: print("logfactor",nm,Rf,rel(u.integrate("log u(x)",factor=f),want))
    except Exception as e: print("logfactor",nm,Rf,"FAIL",type(e).__name__,str(e)[:80])
