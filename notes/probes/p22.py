from common import *
c=conditional.ConditionalGaussianPDF(M=J(vec(1,2,3)),b=J(vec(1,2)),Sigma=J(spd(1,2)))
px=pdf.GaussianPDF(Sigma=J(spd(1,3)),mu=J(vec(1,3)))
y=J(vec(1,2))
f=lambda yy: c.integrate_log_conditional_y(px,y=yy)
try: print("jit ilcy", rel(jax.jit(f)(y), f(y)))
except Exception as e: print("jit ilcy FAIL",type(e).__name__,str(e)[:200])
try: print("vmap ilcy", rel(jax.vmap(lambda yy: f(yy[None])[0])(J(vec(4,2))).shape,()))
except Exception as e: print("vmap ilcy FAIL",type(e).__name__,str(e)[:200])
AC=approximate_conditional
h=AC.HeteroscedasticExpConditional(M=J(vec(1,2,1)),b=J(vec(1,2)),A=J(vec(1,2,2)+np.eye(2)),W=J(0.3*vec(1,2)))
px1=pdf.GaussianPDF(Sigma=J(spd(1,1)),mu=J(vec(1,1)))
g=lambda yy: h.integrate_log_conditional_y(px1,y=yy)
try: print("jit hetero lb", rel(jax.jit(g)(y), g(y)))
except Exception as e: print("jit hetero FAIL",type(e).__name__,str(e)[:200])
try:
    gr=jax.grad(lambda W: AC.HeteroscedasticExpConditional(M=h.M,b=h.b,A=h.A,W=W).integrate_log_conditional_y(px1,y=y)[0])(h.W); print("grad hetero", gr)
    W0=np.array(h.W); d=vec(*W0.shape); eps=1e-5
    fd=(float(AC.HeteroscedasticExpConditional(M=h.M,b=h.b,A=h.A,W=J(W0+eps*d)).integrate_log_conditional_y(px1,y=y)[0])-float(AC.HeteroscedasticExpConditional(M=h.M,b=h.b,A=h.A,W=J(W0-eps*d)).integrate_log_conditional_y(px1,y=y)[0]))/(2*eps)
    print("  dir deriv grad %.8f fd %.8f"%(float((np.array(gr)*d).sum()),fd))
except Exception as e: print("grad hetero FAIL",type(e).__name__,str(e)[:200])
for nm,cls in (("relu",AC.HeteroscedasticReLUConditional),("step",AC.HeteroscedasticHeavisideConditional),("cosh",AC.HeteroscedasticCoshM1Conditional)):
    hh=cls(M=h.M,b=h.b,A=h.A,W=h.W); gg=lambda yy: hh.integrate_log_conditional_y(px1,y=yy)
    try: print("jit",nm, rel(jax.jit(gg)(y), gg(y)))
    except Exception as e: print("jit",nm,"FAIL",type(e).__name__,str(e)[:200])
