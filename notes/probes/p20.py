from common import *
u=measure.GaussianMeasure(Lambda=J(spd(1,3)),nu=J(vec(1,3)),ln_beta=J(vec(1)))
x=J(vec(2,3))
for nm,f in {"lin":factor.LinearFactor(nu=J(vec(3,3)),ln_beta=J(vec(3))),"const":factor.ConstantFactor(ln_beta=J(vec(3)),num_dim=3)}.items():
    r=u.hadamard(f)
    want=np.array(u.hadamard(f.slice(J(np.array([2])))).evaluate_ln(x))
    got=np.array(r.slice(J(np.array([2]))).evaluate_ln(x))
    print(nm,"slice of broadcast hadamard:",got,"want",want)
    try: print("   integrate x shape", np.array(r.integrate("x")).shape, "log_integral", np.array(r.log_integral()).shape)
    except Exception as e: print("   integrate FAIL",type(e).__name__,str(e)[:100])
