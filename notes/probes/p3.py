from common import *
R1,R2,D=2,3,3
def mk_measure(R,D,cached):
    m=measure.GaussianMeasure(Lambda=J(spd(R,D)),nu=J(vec(R,D)),ln_beta=J(vec(R)))
    if cached: m.integrate("x")
    return m
kinds={
 "general": lambda R: factor.ConjugateFactor(Lambda=J(spd(R,D)),nu=J(vec(R,D)),ln_beta=J(vec(R))),
 "rank1": lambda R: factor.OneRankFactor(v=J(vec(R,D)),g=J(np.abs(vec(R))),nu=J(vec(R,D)),ln_beta=J(vec(R))),
 "linear": lambda R: factor.LinearFactor(nu=J(vec(R,D)),ln_beta=J(vec(R))),
 "const": lambda R: factor.ConstantFactor(ln_beta=J(vec(R)),num_dim=D),
 "measure": lambda R: mk_measure(R,D,False),
 "pdf": lambda R: pdf.GaussianPDF(Sigma=J(spd(R,D)),mu=J(vec(R,D))),
}
x=vec(5,D)
for kname,mk in kinds.items():
  for cached in (False,True):
    for uf in (False,True):
        u=mk_measure(R1,D,cached); f=mk(R2)
        lu=np.array(u.evaluate_ln(J(x))); lf=np.array(f.evaluate_ln(J(x)))
        r=u.multiply(f,update_full=uf)
        want=(lu[:,None]+lf[None]).reshape(R1*R2,-1)
        e=rel(r.evaluate_ln(J(x)),want)
        # consistency of caches
        msg=""
        if r.Sigma is not None:
            I=np.einsum('rab,rbc->rac',np.array(r.Sigma),np.array(r.Lambda))
            msg+=" SigLam-I=%.1e"%np.max(np.abs(I-np.eye(D)))
            msg+=" lndet=%.1e"%np.max(np.abs(np.array(r.ln_det_Sigma)-np.linalg.slogdet(np.array(r.Sigma))[1]))
        # integral
        li=np.array(r.log_integral())
        Lam=np.array(r.Lambda);nu=np.array(r.nu);lb=np.array(r.ln_beta)
        Sig=np.linalg.inv(Lam)
        want_li=lb+0.5*np.einsum('rd,rde,re->r',nu,Sig,nu)+0.5*D*np.log(2*np.pi)+0.5*np.linalg.slogdet(Sig)[1]
        print(kname,"cached" if cached else "cold","uf",uf,"mult err %.1e"%e,msg," logint err %.1e"%np.max(np.abs(li-want_li)))
    # hadamard with same R and broadcast
    for (Ru,Rf) in ((3,3),(3,1),(1,3)):
      for uf in (False,True):
        u=mk_measure(Ru,D,True); f=mk(Rf)
        lu=np.array(u.evaluate_ln(J(x))); lf=np.array(f.evaluate_ln(J(x)))
        try:
            r=u.hadamard(f,update_full=uf)
            e=rel(r.evaluate_ln(J(x)),lu+lf)
            extra=" R=%d LambdaR=%d nuR=%d"%(r.R,r.Lambda.shape[0],r.nu.shape[0])
            try:
                li=np.array(r.log_integral()); extra+=" logint shape %s"%(li.shape,)
            except Exception as ex: extra+=" logint FAIL %s"%type(ex).__name__
            print("  hadamard",kname,(Ru,Rf),"uf",uf,"err",e,extra)
        except Exception as ex:
            print("  hadamard",kname,(Ru,Rf),"uf",uf,"FAIL",type(ex).__name__,str(ex)[:100])
