import jax, numpy as np, types
jax.config.update("jax_enable_x64", True)
from jax import numpy as jnp
if not hasattr(jax, "util"):
    def unzip2(xys):
        xs=[];ys=[]
        for x,y in xys: xs.append(x); ys.append(y)
        return tuple(xs), tuple(ys)
    jax.util = types.SimpleNamespace(unzip2=unzip2)
from gaussian_toolbox import factor, measure, pdf, conditional, approximate_conditional
from gaussian_toolbox.experimental import truncated_measure
rng=np.random.default_rng(0)
def spd(R,D, rng=rng):
    A=rng.normal(size=(R,D,D)); return A@A.transpose(0,2,1)+np.eye(D)
def vec(*s, rng=rng): return rng.normal(size=s)
J=jnp.array
def ln_f(Lam,nu,lb,x):
    # numpy: [R,N]
    return -0.5*np.einsum('nd,rde,ne->rn',x,Lam,x)+np.einsum('rd,nd->rn',nu,x)+lb[:,None]
def mvn_logpdf(x,mu,Sig):
    d=x-mu; L=np.linalg.cholesky(Sig); z=np.linalg.solve(L,d.T).T
    return -0.5*np.sum(z**2,-1)-np.sum(np.log(np.diag(L)))-0.5*len(mu)*np.log(2*np.pi)
def rel(a,b):
    a=np.asarray(a);b=np.asarray(b)
    return float(np.max(np.abs(a-b))/(1e-300+np.max(np.abs(b))+np.max(np.abs(a)))) if a.shape==b.shape else ('shape',a.shape,b.shape)
