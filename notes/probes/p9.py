from common import *
import itertools, sys
from scipy import integrate as sint
AC=approximate_conditional
classes={"exp":AC.HeteroscedasticExpConditional,"cosh":AC.HeteroscedasticCoshM1Conditional,"step":AC.HeteroscedasticHeavisideConditional,"relu":AC.HeteroscedasticReLUConditional}
link={"exp":np.exp,"cosh":lambda h:np.cosh(h)-1,"step":lambda h:(h>=0)*1.0,"relu":lambda h:np.maximum(h,0)}
def true_cov(A,Wk,x,lk):
    Dk=Wk.shape[0]; h=Wk[:,1:]@x+Wk[:,0]; Ak=A[:,:Dk]
    return A@A.T+Ak@np.diag(lk(h))@Ak.T
def expect_1d(fn,mu,sig,breaks):
    pts=sorted([b for b in breaks if abs(b-mu)<12*sig])
    val,err=sint.quad(lambda x: fn(x)*np.exp(-0.5*((x-mu)/sig)**2)/np.sqrt(2*np.pi)/sig, mu-12*sig, mu+12*sig, points=pts or None, epsabs=1e-12, epsrel=1e-12, limit=400)
    return val
scale=float(sys.argv[1]) if len(sys.argv)>1 else 0.5
for name,cls in classes.items():
  for (Dx,Dy,Da,Dk) in ((1,2,2,1),(1,2,2,2),(1,2,3,2),(1,1,1,1)):
    M=vec(1,Dy,Dx); b=vec(1,Dy); A=vec(1,Dy,Da); Wk=scale*vec(Dk,Dx+1)
    c=cls(M=J(M),b=J(b),A=J(A),W=J(Wk))
    x=vec(3,Dx)
    cx=c.condition_on_x(J(x))
    Strue=np.stack([true_cov(A[0],Wk,x[n],link[name]) for n in range(3)])
    e_S=np.max(np.abs(np.array(cx.Sigma)-Strue)); e_L=np.max(np.abs(np.einsum('nab,nbc->nac',Strue,np.array(cx.Lambda))-np.eye(Dy))); e_ld=np.max(np.abs(np.array(cx.ln_det_Sigma)-np.linalg.slogdet(Strue)[1]))
    e_mu=np.max(np.abs(np.array(cx.mu)-(x@M[0].T+b[0])))
    # moments
    px=pdf.GaussianPDF(Sigma=J(spd(1,Dx)),mu=J(vec(1,Dx))); m0=float(px.mu[0,0]); s0=float(np.sqrt(px.Sigma[0,0,0]))
    brk=[-Wk[k,0]/Wk[k,1] for k in range(Dk)]
    ESig=np.array([[expect_1d(lambda t: true_cov(A[0],Wk,np.array([t]),link[name])[i,j],m0,s0,brk) for j in range(Dy)] for i in range(Dy)])
    Ey=M[0]@np.array([m0])+b[0]; Cy=ESig+M[0]@M[0].T*s0**2
    pm=c.affine_marginal_transformation(px)
    e_mm=np.max(np.abs(np.array(pm.mu)[0]-Ey)); e_mS=np.max(np.abs(np.array(pm.Sigma)[0]-Cy))
    # lower bound
    y=vec(1,Dy)
    def lnp(t):
        xx=np.array([t]); return mvn_logpdf(y[0],M[0]@xx+b[0],true_cov(A[0],Wk,xx,link[name]))
    truth=expect_1d(lnp,m0,s0,brk)
    try:
        lb=float(np.array(c.integrate_log_conditional_y(px,y=J(y))).ravel()[0])
    except Exception as e: lb=float('nan'); print("   lb FAIL",type(e).__name__,str(e)[:100])
    print("%-5s Dx%dDy%dDa%dDk%d | condx mu %.0e Sig %.0e Lam %.1e lndet %.1e | marg mu %.0e Sig %.1e | lb %.6f truth %.6f gap %.2e"%(name,Dx,Dy,Da,Dk,e_mu,e_S,e_L,e_ld,e_mm,e_mS,lb,truth,truth-lb))
