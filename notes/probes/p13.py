from common import *
from jax import lax
p=pdf.GaussianPDF(Sigma=J(spd(4,3)),mu=J(vec(4,3)))
for idx in ([0,0,2],[-1,1],[3,2,1,0],[-4]):
    q=p.slice(J(np.array(idx)))
    print("slice",idx,rel(q.mu,np.array(p.mu)[idx]),rel(q.evaluate_ln(J(vec(2,3))).shape,()))
x=vec(2,3)
q=p.slice(J(np.array([-1,1]))); print("neg idx eval equal", rel(q.evaluate_ln(J(x)), np.array(p.evaluate_ln(J(x)))[[-1,1]]))
# update
p2=pdf.GaussianPDF(Sigma=J(np.array(p.Sigma)),mu=J(np.array(p.mu)))
d=pdf.GaussianPDF(Sigma=J(spd(2,3)),mu=J(vec(2,3)))
before=np.array(p2.evaluate_ln(J(x)))
p2.update(J(np.array([2,0])),d)
after=np.array(p2.evaluate_ln(J(x))); dd=np.array(d.evaluate_ln(J(x)))
print("update: replaced ok",np.allclose(after[[2,0]],dd),"others untouched",np.allclose(after[[1,3]],before[[1,3]]), "integral",np.array(p2.integrate()), "Sigma ok", np.allclose(np.array(p2.Sigma)[[2,0]],np.array(d.Sigma)))
print("   integrate x after update", rel(p2.integrate("x"), np.array(p2.mu)))
# jit arg / result / scan carry with shim
f=jax.jit(lambda q,xx: q.evaluate_ln(xx)); print("jit arg", rel(f(p,J(x)),p.evaluate_ln(J(x))))
g=jax.jit(lambda S,m: pdf.GaussianPDF(Sigma=S,mu=m)); q=g(p.Sigma,p.mu); print("jit result", type(q).__name__, rel(q.evaluate_ln(J(x)),p.evaluate_ln(J(x))))
c=conditional.ConditionalGaussianPDF(M=J(vec(1,3,3)),b=J(vec(1,3)),Sigma=J(spd(1,3)))
obs=conditional.ConditionalGaussianPDF(M=J(vec(1,2,3)),b=J(vec(1,2)),Sigma=J(spd(1,2)))
p0=pdf.GaussianPDF(Sigma=J(spd(1,3)),mu=J(vec(1,3)))
def step(carry,y):
    pred=c.affine_marginal_transformation(carry)
    post=obs.affine_conditional_transformation(pred).condition_on_x(y[None])
    return post,(post.mu[0],post.Sigma[0])
ys=J(vec(5,2))
try:
    last,(mus,Ss)=lax.scan(step,p0,ys)
    # eager
    cur=p0; 
    for t in range(5): cur,_=step(cur,ys[t])
    print("scan carry ok", rel(last.mu,cur.mu), rel(last.Sigma,cur.Sigma))
except Exception as e: print("scan FAIL",type(e).__name__,str(e)[:300])
try:
    h=jax.jit(lambda cc,pp: cc.affine_joint_transformation(pp).evaluate_ln(jnp.zeros((1,6))))
    print("jit cond arg", rel(h(c,p0), c.affine_joint_transformation(p0).evaluate_ln(jnp.zeros((1,6)))))
except Exception as e: print("jit cond arg FAIL",type(e).__name__,str(e)[:200])
for nm,fo in {"const":factor.ConstantFactor(ln_beta=J(vec(2)),num_dim=3),"lin":factor.LinearFactor(nu=J(vec(2,3)),ln_beta=J(vec(2))),"rank1":factor.OneRankFactor(v=J(vec(2,3)),g=J(np.abs(vec(2))))}.items():
    try:
        k=jax.jit(lambda ff,xx: ff.evaluate_ln(xx)); print("jit factor arg",nm, rel(k(fo,J(x)),fo.evaluate_ln(J(x))))
    except Exception as e: print("jit factor arg",nm,"FAIL",type(e).__name__,str(e)[:150])
# vmap over data
vm=jax.vmap(lambda xx: p.evaluate_ln(xx[None])[:,0])(J(x)); print("vmap data", rel(vm.T, p.evaluate_ln(J(x))))
# grad
def loss(S,m): return pdf.GaussianPDF(Sigma=S,mu=m).evaluate_ln(J(x)).sum()
gS,gm=jax.grad(loss,argnums=(0,1))(p.Sigma,p.mu); print("grad ok", gS.shape, gm.shape, bool(jnp.all(jnp.isfinite(gS))))
# truncated under jit
tm=jax.jit(lambda lam,nu: truncated_measure.TruncatedGaussianMeasure(measure=measure.GaussianMeasure(Lambda=lam,nu=nu),lower_limit=0.,upper_limit=jnp.inf).integrate("x**k",k=3))
print("jit truncated", tm(J(np.ones((2,1,1))),J(np.ones((2,1)))))
