from common import *
def diagS(R,D): return np.stack([np.diag(np.abs(vec(D))+.5) for _ in range(R)])
R,D=3,3
S=diagS(R,D); m=vec(R,D)
a=pdf.GaussianDiagPDF(Sigma=J(S),mu=J(m)); b=pdf.GaussianPDF(Sigma=J(S),mu=J(m))
x=J(vec(4,D))
fs={"general":factor.ConjugateFactor(Lambda=J(spd(2,D)),nu=J(vec(2,D)),ln_beta=J(vec(2))),"rank1":factor.OneRankFactor(v=J(vec(2,D)),g=J(np.abs(vec(2))),nu=J(vec(2,D)),ln_beta=J(vec(2))),"lin":factor.LinearFactor(nu=J(vec(2,D)),ln_beta=J(vec(2)))}
print("eval",rel(a.evaluate_ln(x),b.evaluate_ln(x)),"entropy",rel(a.entropy(),b.entropy()),"kl",rel(a.kl_divergence(a.slice(J(np.array([1])))),b.kl_divergence(b.slice(J(np.array([1]))))))
for k,f in fs.items():
    for uf in (False,True):
        ra=a.multiply(f,update_full=uf); rb=b.multiply(f,update_full=uf)
        print("mult",k,uf,type(ra).__name__,rel(ra.evaluate_ln(x),rb.evaluate_ln(x)),rel(ra.log_integral(),rb.log_integral()),rel(ra.integrate("xx'"),rb.integrate("xx'")))
for key in ("x","xx'","(Ax+a)'(Bx+b)"): print("int",key,rel(a.integrate(key),b.integrate(key)))
ma=a.get_marginal(J(np.array([2,0]))); mb=b.get_marginal(J(np.array([2,0]))); print("marg",type(ma).__name__,rel(ma.evaluate_ln(x[:,:2]),mb.evaluate_ln(x[:,:2])))
ca=a.condition_on(J(np.array([1]))); cb=b.condition_on(J(np.array([1]))); print("cond_on",rel(ca.M,cb.M),rel(ca.Sigma,cb.Sigma))
key=jax.random.PRNGKey(0); print("sample",rel(a.sample(key,5),b.sample(key,5)))
W=J(vec(R,2,D)); print("linsum",type(a.get_density_of_linear_sum(W)).__name__,rel(a.get_density_of_linear_sum(W).Sigma,b.get_density_of_linear_sum(W).Sigma))
# diag measure
La=np.linalg.inv(S)
ua=measure.GaussianDiagMeasure(Lambda=J(La),nu=J(m),ln_beta=J(vec(R))); ub=measure.GaussianMeasure(Lambda=J(La),nu=ua.nu,ln_beta=ua.ln_beta)
print("diag measure",rel(ua.log_integral(),ub.log_integral()),rel(ua.integrate("x"),ub.integrate("x")),type(ua.slice(J(np.array([0]))) ).__name__,type(ua.product()).__name__,rel(ua.product().log_integral(),ub.product().log_integral()), rel(ua.get_density().evaluate_ln(x),ub.get_density().evaluate_ln(x)))
# diag conditional
Dy,Dx=2,3
Mm=vec(R,Dy,Dx);bb=vec(R,Dy);Sd=diagS(R,Dy)
ca=conditional.ConditionalGaussianDiagPDF(M=J(Mm),b=J(bb),Sigma=J(Sd)); cb=conditional.ConditionalGaussianPDF(M=J(Mm),b=J(bb),Sigma=J(Sd))
px=pdf.GaussianPDF(Sigma=J(spd(1,Dx)),mu=J(vec(1,Dx)))
for op in ("affine_joint_transformation","affine_marginal_transformation"):
    print("dcond",op,rel(getattr(ca,op)(px).Sigma,getattr(cb,op)(px).Sigma),rel(getattr(ca,op)(px).ln_det_Sigma,getattr(cb,op)(px).ln_det_Sigma))
pa=ca.affine_conditional_transformation(px);pb=cb.affine_conditional_transformation(px); print("dcond condtrans",rel(pa.M,pb.M),rel(pa.b,pb.b))
print("dcond Lambda-only ctor", rel(conditional.ConditionalGaussianDiagPDF(M=J(Mm),Lambda=J(np.linalg.inv(Sd))).Sigma, Sd), "entropy", rel(ca.conditional_entropy(px),cb.conditional_entropy(px)))
yy=J(vec(R,Dy)); print("dcond set_y", rel(ca.set_y(yy).ln_beta,cb.set_y(yy).ln_beta), "slice type", type(ca.slice(J(np.array([0])))).__name__)
qa=pdf.GaussianPDF(Sigma=J(spd(1,Dy+Dx)),mu=J(vec(1,Dy+Dx)))
print("dcond ilc", rel(ca.slice(J(np.array([0]))).integrate_log_conditional(qa), cb.slice(J(np.array([0]))).integrate_log_conditional(qa)))
# update_Sigma
cc=conditional.ConditionalGaussianDiagPDF(M=J(Mm),b=J(bb),Sigma=J(Sd)); newS=J(diagS(R,Dy)); cc.update_Sigma(newS); print("update_Sigma consistent", rel(np.einsum('rab,rbc->rac',np.array(cc.Sigma),np.array(cc.Lambda)),np.tile(np.eye(Dy),(R,1,1))), rel(cc.ln_det_Sigma,np.linalg.slogdet(np.array(newS))[1]))
