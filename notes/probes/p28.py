from common import *
from scipy import integrate as sint
# (3) integrate_log_conditional with R == p_yx.R > 1
R,Dx,Dy=3,2,2
c=conditional.ConditionalGaussianPDF(M=J(vec(R,Dy,Dx)),b=J(vec(R,Dy)),Sigma=J(spd(R,Dy)))
q=pdf.GaussianPDF(Sigma=J(spd(R,Dy+Dx)),mu=J(vec(R,Dy+Dx)))
got=np.array(c.integrate_log_conditional(q))
M=np.array(c.M);b=np.array(c.b);S=np.array(c.Sigma);mq=np.array(q.mu);Sq=np.array(q.Sigma)
want=[]
for r in range(R):
    A=np.hstack([np.eye(Dy),-M[r]]); e=A@mq[r]-b[r]; C=A@Sq[r]@A.T; L=np.linalg.inv(S[r])
    want.append(-0.5*(e@L@e+np.trace(L@C)+np.linalg.slogdet(S[r])[1]+Dy*np.log(2*np.pi)))
print("ILC R=R_q=3:",rel(got,want))
ones=[float(c.slice(J(np.array([r]))).integrate_log_conditional(q.slice(J(np.array([r]))))[0]) for r in range(R)]
print("   slices:",rel(got,ones))
# (7) truncated: batch R=3 with per-component limits vs slices
TM=truncated_measure
u=measure.GaussianMeasure(Lambda=J(np.abs(vec(3,1,1))+.3),nu=J(vec(3,1)),ln_beta=J(vec(3)))
lo=np.array([[-1.],[0.2],[-np.inf]]); hi=np.array([[0.5],[np.inf],[0.3]])
t=TM.TruncatedGaussianMeasure(measure=u,lower_limit=J(lo),upper_limit=J(hi))
for key,kw in (("1",{}),("x",{}),("x**2",{}),("x**k",{"k":3})):
    full=np.array(t.integrate(key,**kw)).reshape(3)
    ones=[float(np.array(TM.TruncatedGaussianMeasure(measure=u.slice(J(np.array([r]))),lower_limit=J(lo[r:r+1]),upper_limit=J(hi[r:r+1])).integrate(key,**kw)).ravel()[0]) for r in range(3)]
    print("trunc batch vs slices",key,rel(full,ones))
# NNControl batched u with single prior
Wn=vec(3, 2*(3+1)); cf=lambda u_: jnp.tanh(u_)@J(Wn)
nn=conditional.NNControlGaussianConditional(Sigma=J(spd(1,2)),num_cond_dim=3,num_control_dim=3,control_func=cf)
u4=J(vec(4,3)); px=pdf.GaussianPDF(Sigma=J(spd(1,3)),mu=J(vec(1,3)))
j=nn.affine_joint_transformation(px,u=u4); g=nn.set_control_variable(u4)
x=vec(2,3);y=vec(2,2)
want=np.array([[mvn_logpdf(y[n],np.array(g.M)[r]@x[n]+np.array(g.b)[r],np.array(g.Sigma)[r])+mvn_logpdf(x[n],np.array(px.mu)[0],np.array(px.Sigma)[0]) for n in range(2)] for r in range(4)])
print("NN batched-u joint err",rel(j.evaluate_ln(J(np.hstack([x,y]))),want))
# OneRankFactor default g, slice, evaluate
f=factor.OneRankFactor(v=J(vec(3,2))); print("rank1 default g", np.array(f.g), rel(f.slice(J(np.array([2,0]))).evaluate_ln(J(x[:,:2])), np.array(f.evaluate_ln(J(x[:,:2])))[[2,0]]))
