from common import *
key=jax.random.PRNGKey(7)
a=np.array(jax.random.normal(key,(5,3,2))).ravel(); b=np.array(jax.random.normal(key,(30,))); c=np.array(jax.random.normal(key,(3,5,2))).ravel()
print("flat stream same:", np.array_equal(a,b), np.array_equal(a,c))
p=pdf.GaussianPDF(Sigma=J(spd(3,2)),mu=J(vec(3,2)))
s=np.array(p.sample(key,5)); print(s.shape)
L=np.linalg.cholesky(np.array(p.Sigma)); z=np.einsum('rab,nrb->nra',np.linalg.inv(L),s-np.array(p.mu)[None])
print("whitened == stream:", np.max(np.abs(z-np.array(jax.random.normal(key,(5,3,2))))))
print("deterministic:", np.array_equal(s,np.array(p.sample(key,5))))
# new-style typed keys
k2=jax.random.key(7); print("typed key ok", np.array(p.sample(k2,2)).shape)
# fit quadratic oracle accuracy
D=4
f=measure.GaussianMeasure(Lambda=J(spd(1,D)),nu=J(vec(1,D)),ln_beta=J(vec(1)))
E=np.eye(D); pts=[np.zeros(D)]+[E[i] for i in range(D)]+[-E[i] for i in range(D)]+[E[i]+E[j] for i in range(D) for j in range(i+1,D)]
vals=np.array(f.evaluate_ln(J(np.array(pts))))[0]
c0=vals[0]; nu=(vals[1:1+D]-vals[1+D:1+2*D])/2; Lam=np.zeros((D,D))
for i in range(D): Lam[i,i]=-(vals[1+i]+vals[1+D+i]-2*c0)
k=1+2*D
for i in range(D):
    for j in range(i+1,D):
        Lam[i,j]=Lam[j,i]=-(vals[k]-vals[1+i]-vals[1+j]+c0); k+=1
print("fit err", np.max(np.abs(Lam-np.array(f.Lambda)[0])), np.max(np.abs(nu-np.array(f.nu)[0])), abs(c0-float(f.ln_beta[0])))
