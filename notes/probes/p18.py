import time
t0=time.time()
from common import *
print("import %.1fs"%(time.time()-t0))
def run(Rc,Rx,Dx,Dy):
    c=conditional.ConditionalGaussianPDF(M=J(vec(Rc,Dy,Dx)),b=J(vec(Rc,Dy)),Sigma=J(spd(Rc,Dy)))
    px=pdf.GaussianPDF(Sigma=J(spd(Rx,Dx)),mu=J(vec(Rx,Dx)))
    j=c.affine_joint_transformation(px); m=c.affine_marginal_transformation(px); k=c.affine_conditional_transformation(px)
    return float(j.evaluate_ln(J(vec(3,Dx+Dy))).sum())
for shp in ((1,1,3,2),(1,1,3,2),(1,1,4,2),(1,1,4,2),(2,1,4,3),(2,1,4,3)):
    t=time.time(); run(*shp); print(shp,"%.2fs"%(time.time()-t))
u=measure.GaussianMeasure(Lambda=J(spd(2,3)),nu=J(vec(2,3)))
for k in range(2):
    t=time.time(); u.integrate("(Ax+a)(Bx+b)'(Cx+c)(Dx+d)'",A_mat=J(vec(2,3)),B_mat=J(vec(4,3)),C_mat=J(vec(4,3)),D_mat=J(vec(5,3))); print("quartic %.2fs"%(time.time()-t))
