from common import *
AC=approximate_conditional
Dx,Dy,Dk=2,2,2
cs={"LRBF":AC.LRBFGaussianConditional(M=J(vec(1,Dy,Dx+Dk)),b=J(vec(1,Dy)),mu=J(vec(Dk,Dx)),length_scale=J(np.abs(vec(Dk,Dx))+.7),Sigma=J(spd(1,Dy))),
    "LSEM":AC.LSEMGaussianConditional(M=J(vec(1,Dy,Dx+Dk)),b=J(vec(1,Dy)),W=J(0.7*vec(Dk,Dx+1)),Sigma=J(spd(1,Dy))),
    "lin":conditional.ConditionalGaussianPDF(M=J(vec(1,Dy,Dx)),b=J(vec(1,Dy)),Sigma=J(spd(1,Dy))),
    "ident":conditional.ConditionalIdentityGaussianPDF(Sigma=J(spd(1,Dx)))}
px=pdf.GaussianPDF(Sigma=J(spd(3,Dx)),mu=J(vec(3,Dx))); y=J(vec(3,Dy))
for nm,c in cs.items():
    try:
        full=np.array(c.integrate_log_conditional_y(px,y=y))
        ones=np.array([np.array(c.integrate_log_conditional_y(px.slice(J(np.array([r]))),y=y[r:r+1])).ravel()[0] for r in range(3)])
        print(nm,"ilcy paired batch: shape",full.shape,"slice err",rel(full.ravel(),ones))
    except Exception as e: print(nm,"ilcy batch FAIL",type(e).__name__,str(e)[:120])
    # px R=3 with single y
    try:
        full=np.array(c.integrate_log_conditional_y(px,y=y[:1])); print("   px R=3, one y: shape",full.shape)
    except Exception as e: print("   px R=3 one y FAIL",type(e).__name__,str(e)[:100])
    try:
        full=np.array(c.integrate_log_conditional_y(px.slice(J(np.array([0]))),y=y)); print("   px R=1, 3 y: shape",full.shape)
    except Exception as e: print("   px R=1 3 y FAIL",type(e).__name__,str(e)[:100])
