from common import *
from scipy import integrate as sint
TM=truncated_measure
R=3
u=measure.GaussianMeasure(Lambda=J(np.abs(vec(R,1,1))+.3),nu=J(vec(R,1)),ln_beta=J(vec(R)))
Lam=np.array(u.Lambda)[:,0,0]; nu=np.array(u.nu)[:,0]; lb=np.array(u.ln_beta)
def uf(r,x): return np.exp(-0.5*Lam[r]*x*x+nu[r]*x+lb[r])
for (a,b) in ((-0.5,1.0),(None,0.3),(0.2,None),(2.0,3.0),(-np.inf,np.inf)):
    kw={}
    if a is not None: kw['lower_limit']=J(a)
    if b is not None: kw['upper_limit']=J(b)
    try: t=TM.TruncatedGaussianMeasure(measure=u,**kw)
    except Exception as e: print((a,b),"ctor FAIL",type(e).__name__,str(e)[:80]); continue
    lo=-np.inf if a is None else a; hi=np.inf if b is None else b
    out=[]
    for k,(key,kk) in enumerate([("1",{}),("x",{}),("x**2",{}),("x**k",{"k":0}),("x**k",{"k":1}),("x**k",{"k":2}),("x**k",{"k":3}),("x**k",{"k":4}),("x**k",{"k":6})]):
        kpow={"1":0,"x":1,"x**2":2}.get(key,kk.get("k"))
        want=np.array([sint.quad(lambda x: x**kpow*uf(r,x),lo,hi,epsabs=1e-13,epsrel=1e-13)[0] for r in range(R)])
        try:
            got=np.array(t.integrate(key,**kk)).reshape(R)
            scale=np.array([sint.quad(lambda x: abs(x)**kpow*uf(r,x),-np.inf,np.inf)[0] for r in range(R)])
            out.append("%s%s:%.1e"%(key,kk.get("k",""),np.max(np.abs(got-want)/scale)))
        except Exception as e: out.append("%s%s:FAIL %s"%(key,kk.get("k",""),type(e).__name__))
    print((a,b)," ".join(out))
    # evaluation
    x=np.array([[-1.],[0.25],[0.9],[2.5],[5.]])
    got=np.array(t(J(x))); want=np.array([[uf(r,xx[0])*(lo<=xx[0]<=hi) for xx in x] for r in range(R)])
    # normalised
    d=t.get_density(); gd=np.array(d(J(x))); Z=np.array([sint.quad(lambda x: uf(r,x),lo,hi)[0] for r in range(R)])
    d2=TM.TruncatedGaussianPDF(measure=u,**kw); gd2=np.array(d2(J(x)))
    print("    eval err %.1e | get_density eval err %.1e | direct PDF on unnormalised measure eval err %.1e  integrate(1)=%s"%(np.max(np.abs(got-want)),np.max(np.abs(gd-want/Z[:,None])),np.max(np.abs(gd2-want/Z[:,None])),np.array(d2.integrate()).round(6)))
    mean=np.array([sint.quad(lambda x: x*uf(r,x),lo,hi)[0] for r in range(R)])/Z
    var=np.array([sint.quad(lambda x: x*x*uf(r,x),lo,hi)[0] for r in range(R)])/Z-mean**2
    print("    mean err %.1e var err %.1e"%(np.max(np.abs(np.array(d.get_mean())[:,0]-mean)),np.max(np.abs(np.array(d.get_variance())[:,0]-var))))
