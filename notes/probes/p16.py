from common import *
import itertools, sys
from numpy.polynomial.hermite_e import hermegauss
AC=approximate_conditional
classes={"exp":AC.HeteroscedasticExpConditional,"cosh":AC.HeteroscedasticCoshM1Conditional,"step":AC.HeteroscedasticHeavisideConditional,"relu":AC.HeteroscedasticReLUConditional}
link={"exp":np.exp,"cosh":lambda h:np.cosh(h)-1,"step":lambda h:(h>=0)*1.0,"relu":lambda h:np.maximum(h,0)}
def gh(mu,Sig,n):
    D=len(mu); z,w=hermegauss(n); w=w/np.sqrt(2*np.pi)
    Z=np.array(list(itertools.product(z,repeat=D))); Wt=np.prod(np.array(list(itertools.product(w,repeat=D))),1)
    L=np.linalg.cholesky(Sig); return mu+Z@L.T, Wt
rng=np.random.default_rng(int(sys.argv[1]))
def v(*s): return rng.normal(size=s)
for name,cls in classes.items():
  for trial in range(3):
    Dx=2; Dy=int(rng.integers(1,3)); Da=Dy; Dk=int(rng.integers(1,Da+1)); N=3
    M=v(1,Dy,Dx); b=v(1,Dy); A=v(1,Dy,Da)+np.eye(Dy)[None]; Wk=0.5*v(Dk,Dx+1)
    if np.linalg.cond(A[0]@A[0].T)>1e3: continue
    c=cls(M=J(M),b=J(b),A=J(A),W=J(Wk))
    Sx=spd(N,Dx); mx=v(N,Dx); px=pdf.GaussianPDF(Sigma=J(Sx),mu=J(mx)); y=v(N,Dy)
    try: lb=np.array(c.integrate_log_conditional_y(px,y=J(y))).ravel()
    except Exception as e: print(name,"FAIL",type(e).__name__,str(e)[:120]); continue
    # slicing dependence
    lb1=np.array([np.array(c.integrate_log_conditional_y(px.slice(J(np.array([n]))),y=J(y[n:n+1]))).ravel()[0] for n in range(N)])
    truths=[]
    for n in range(N):
        res=[]
        for nn in (30,48):
            X,W=gh(mx[n],Sx[n],nn)
            cx=c.condition_on_x(J(X))
            # independent log density using true covariance
            h=X@Wk[:,1:].T+Wk[:,0]; Dv=link[name](h); Ak=A[0][:,:Dk]
            S=A[0]@A[0].T+np.einsum('ak,nk,bk->nab',Ak,Dv,Ak)
            d=y[n]-(X@M[0].T+b[0]); Sinv=np.linalg.inv(S)
            lp=-0.5*np.einsum('na,nab,nb->n',d,Sinv,d)-0.5*np.linalg.slogdet(S)[1]-0.5*Dy*np.log(2*np.pi)
            res.append(W@lp)
        truths.append(res)
    truths=np.array(truths)
    print(name,"Dy",Dy,"Dk",Dk,"gap",np.round(truths[:,1]-lb,8),"quadconv %.1e"%np.max(np.abs(truths[:,0]-truths[:,1])),"slice-dep %.1e"%np.max(np.abs(lb-lb1)))
