import time, os
from common import *
import hypothesis
from hypothesis import given, settings, strategies as st, HealthCheck, seed
from hypothesis.extra import numpy as hnp
SHAPES=[(2,3,3),(3,2,2),(1,4,3),(2,2,1)]
fl=st.floats(-2,2,allow_nan=False,allow_infinity=False,width=64)
@st.composite
def case(draw):
    R1,R2,D=draw(st.sampled_from(SHAPES))
    def spd_(R):
        G=draw(hnp.arrays(np.float64,(R,D,D),elements=fl)); lam=draw(hnp.arrays(np.float64,(R,D),elements=st.floats(0.1,10)))
        Q=np.linalg.qr(G+1e-3*np.eye(D))[0]; return np.einsum('rab,rb,rcb->rac',Q,lam,Q)
    return dict(R1=R1,R2=R2,D=D,L1=spd_(R1),n1=draw(hnp.arrays(np.float64,(R1,D),elements=fl)),b1=draw(hnp.arrays(np.float64,(R1,),elements=fl)),
                L2=spd_(R2),n2=draw(hnp.arrays(np.float64,(R2,D),elements=fl)),b2=draw(hnp.arrays(np.float64,(R2,),elements=fl)),x=draw(hnp.arrays(np.float64,(3,D),elements=fl)))
cnt=[0]
@seed(1)
@settings(max_examples=int(os.environ.get("N","300")),deadline=None,database=None,suppress_health_check=list(HealthCheck))
@given(case())
def test(c):
    cnt[0]+=1
    u=measure.GaussianMeasure(Lambda=J(c['L1']),nu=J(c['n1']),ln_beta=J(c['b1'])); f=factor.ConjugateFactor(Lambda=J(c['L2']),nu=J(c['n2']),ln_beta=J(c['b2']))
    r=u.multiply(f,update_full=True); got=np.array(r.evaluate_ln(J(c['x'])))
    want=(ln_f(c['L1'],c['n1'],c['b1'],c['x'])[:,None]+ln_f(c['L2'],c['n2'],c['b2'],c['x'])[None]).reshape(c['R1']*c['R2'],-1)
    assert np.max(np.abs(got-want))<1e-8*(1+np.max(np.abs(want)))
t=time.time(); test(); print("cases",cnt[0],"time %.1fs"%(time.time()-t))
