#!/bin/bash
# Offline setup: make sure /venv can import hypothesis (install from the local wheelhouse if not) and the repo imports.
set -e
cd "$(dirname "$0")"
if ! /venv/bin/python -W ignore -c "import hypothesis" 2>/dev/null; then
  /venv/bin/pip install --no-index --find-links /opt/veriftools/wheels hypothesis
fi
PYTHONPATH=/repo /venv/bin/python -W ignore -c "import hypothesis, numpy, scipy, jax; import gaussian_toolbox; print('setup ok', hypothesis.__version__, jax.__version__)"
mkdir -p evidence replays .cache/xla
