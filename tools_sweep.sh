#!/bin/bash
# Run every quick check at several seeds; print one line per (property, seed). Usage: tools_sweep.sh "1 2 3" [tier] ["C05 C10 ..."]
# Evidence / replays are redirected so a sweep never touches the committed files.
cd "$(dirname "$0")"
seeds="${1:-1 2 3}"; tier="${2:-quick}"; only="${3:-}"
out="${SWEEP_OUT:-/tmp/sweep_$$}"; mkdir -p "$out"
for s in $seeds; do
  for p in ${only:-$(python3 -c "import json;print(' '.join(c['property_id'] for c in json.load(open('MANIFEST.json'))['checks']))")}; do
    VERIF_SEED=$s VERIF_EVIDENCE_DIR="$out/ev_$s" VERIF_REPLAY_DIR="$out/replays_$s" ./check $p $tier > "$out/$p.$s.log" 2>&1
    rc=$?
    echo "$p seed=$s rc=$rc $(grep -E "^$p $tier" "$out/$p.$s.log" | tail -1)"
    grep -E "^VIOLATION|HARNESS" "$out/$p.$s.log" | head -3
  done
done
