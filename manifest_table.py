# executed by tools_manifest.py
_NOTE = ("Trusted base: numpy/scipy reference formulas in vp/oracle.py and the per-property oracle code, Hypothesis as generator/shrinker, "
         "JAX/XLA numerics. Explored bounds (dims, batch sizes, case counts) are in the evidence file; absence beyond them is not shown.")
claim("C01", "property-based testing (Hypothesis) against an independent numpy oracle",
      "Generated measures (4 kinds x 3 cache states) x factors (6 kinds) x {multiply,*,hadamard,product} x update_full are evaluated pointwise and compared with ln u_i(x)+ln f_j(x) computed in numpy from the constructor inputs, at the documented component layout; operand immutability checked bytewise.",
      _NOTE, "DESIGN.md §2 C01")
claim("C02", "property-based testing (Hypothesis); oracle = quadratic fitted to evaluate_ln outputs, integrated in closed form",
      "Generated measures after 0-3 history steps (multiply/hadamard/slice/queries) and densities from every route (constructor combinations, get_density, slice, marginal, linear sum, condition_on(x), cond(x), joint/marginal/conditional transformations for all 5 linear conditional classes and batch combos): the function the object evaluates to is recovered from evaluate_ln alone and its integral, mean and covariance are compared with the reported mass / 1 / exposed mu, Sigma.",
      _NOTE, "DESIGN.md §2 C02")
