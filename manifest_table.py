# executed by tools_manifest.py
_NOTE = ("Trusted base: numpy/scipy reference formulas in vp/oracle.py and the per-property oracle code, Hypothesis as generator/shrinker, "
         "JAX/XLA numerics. Explored bounds (dims, batch sizes, case counts) are in the evidence file; absence beyond them is not shown. "
         "Besides O(1) payloads every run visits the regimes listed in DESIGN.md 1.1 where they apply to the property: overall scales 0.03-30 and "
         "1e+-8 units, means 1e4-1e6 standard deviations from the origin, sharp-vs-vague mixtures (C09, C11), sizes beyond 16 / 512 / 1024 / 2^20 "
         "(dimension, batch, points, kernels, draws), objects with a past (queried, updated in place, update_Sigma), the same object on both sides, "
         "a second different query on one object, and the jitted program before the eager one (C18).")
claim("C01", "property-based testing (Hypothesis) against an independent numpy oracle",
      "Generated measures (4 kinds x 3 cache states) x factors (6 kinds) x {multiply,*,hadamard,product} x update_full are evaluated pointwise and compared with ln u_i(x)+ln f_j(x) computed in numpy from the constructor inputs, at the documented component layout; operand immutability checked bytewise.",
      _NOTE, "DESIGN.md §2 C01")
claim("C02", "property-based testing (Hypothesis); oracle = quadratic fitted to evaluate_ln outputs, integrated in closed form",
      "Generated measures after 0-3 history steps (multiply/hadamard/slice/queries) and densities from every route (constructor combinations, get_density, slice, marginal, linear sum, condition_on(x), cond(x), joint/marginal/conditional transformations for all 5 linear conditional classes and batch combos): the function the object evaluates to is recovered from evaluate_ln alone and its integral, mean and covariance are compared with the reported mass / 1 / exposed mu, Sigma.",
      _NOTE, "DESIGN.md §2 C02")
claim("C07", "property-based testing (Hypothesis) against an independent numpy oracle (chain rule)",
      "All 5 linear conditional classes x both dimension regimes x batch combos (1,1),(1,n),(n,1): joint.evaluate_ln is compared pointwise with ln N(y;Mx+b,S)+ln N(x;mu,Sigma) from numpy at layout rc*Rx+rx, and the returned mu/Sigma/Lambda/ln_det_Sigma with a dense block construction.",
      _NOTE, "DESIGN.md §2 C07")
claim("C08", "property-based testing (Hypothesis); two independent numpy oracles (moment form and information-form integral over x)",
      "Marginal transformation for all classes/combos compared with N(M mu+b, S+M Sigma M'), with the closed-form integral over x of the information form of p(y|x)p(x), and with the y-marginal of the joint transformation.",
      _NOTE, "DESIGN.md §2 C08")
claim("C09", "property-based testing (Hypothesis); Bayes identity against numpy and slice-wise round trips",
      "post(y)(x) is compared with ln p(y|x)+ln p(x)-ln p(y) from numpy; T_cond(T_cond(c,px),py) and T_marg(T_cond(c,px),py) must return the original conditional / prior per slice.",
      _NOTE, "DESIGN.md §2 C09")
claim("C10", "property-based testing (Hypothesis) against an independent numpy oracle; known-finding matcher for the Dx/Dy constant",
      "set_y factors for all classes, Dx!=Dy, broadcast and paired observations are evaluated against ln N(y_i;Mx_n+b,S); well-formedness (R, shapes, slice, product) and the posterior from prior*product() against numpy. The listed finding KF-SETY-NORM is recognised only by its exact constant k(Dy-Dx)/2 ln 2pi.",
      _NOTE, "DESIGN.md §2 C10")
claim("C03", "property-based testing (Hypothesis); three independent oracles (Isserlis tensors, Gauss-Hermite, exact integer mode)",
      "All 12 integration keys x coefficient modes (shared / per-component / mixed / omitted matrix or vector) x measure kinds x cache states: integrate() is compared with the mass times Isserlis moment tensors contracted element-wise from the integrand's definition, with 3-node tensor Gauss-Hermite (D<=4, exact for degree<=5), and bit-exactly in integer mode.",
      _NOTE, "DESIGN.md §2 C03")
claim("C05", "property-based testing (Hypothesis); numpy moment-form oracle plus information-form Schur-complement oracle",
      "get_marginal for every duplicate-free index list in arbitrary order (full and diagonal densities) and get_density_of_linear_sum for full-row-rank W (per-component, shared W against a batch, batched W against one density; b optional) are compared pointwise with numpy; the marginal additionally with the closed-form integral of the joint over the dropped coordinates; operand immutability and diag-stays-diag are checked.",
      _NOTE, "DESIGN.md §2 C05")
claim("C06", "property-based testing (Hypothesis); product-rule oracle in numpy plus covariance-form Schur complement",
      "condition_on / condition_on_explicit for every proper subset in arbitrary order: cond(x_b)(x_a) + ln p(x_b) is compared with ln p(x) from numpy at layout r*N+n, and (M,b,Sigma,Lambda,ln_det_Sigma) with the covariance-form Schur complement; row order follows the requested list.",
      _NOTE, "DESIGN.md §2 C06")
claim("C11", "property-based testing over generated update histories (permutations, Kalman sequences) against dense numpy references",
      "Three posterior routes (sequential in a drawn order, stacked joint + conditioning, prior*product of set_y factors) and their evidences are compared with the numpy posterior / log marginal likelihood; Kalman filtering (T<=6 quick, <=12 thorough, incl. identity-mean state model) with the dense joint over all states and observations.",
      _NOTE, "DESIGN.md §2 C11")
claim("C13", "property-based testing (Hypothesis) against closed forms evaluated with numpy eigenvalues",
      "entropy, -E[ln p] via integrate('log u(x)'), KL for (R,R),(1,n),(n,1) incl. KL(p,p)=0 and non-negativity, conditional entropy (also via -integrate_log_conditional of the (y,x) joint), mutual information (value, sign, M=0, role swap through the conditional transformation) for all linear conditional classes and batch combos.",
      _NOTE, "DESIGN.md §2 C13")
claim("C14", "property-based testing (Hypothesis); closed-form numpy oracle (linear) and two-resolution Gauss-Hermite oracle (feature models)",
      "integrate('log u(x)', factor) for all factor kinds (R_f in {1,R}); integrate_log_conditional(q) for an arbitrary Gaussian q and integrate_log_conditional_y (callable and evaluated; single or paired p_x) for linear/identity/NN-control classes (closed form) and RBF / squared-exponential feature models (y analytic given x, x by Gauss-Hermite with convergence certificate).",
      _NOTE, "DESIGN.md §2 C14")
claim("C15", "differential property-based testing (Hypothesis): specialised class vs general class on generated operations",
      "Rank-one/linear/constant factors vs ConjugateFactor (multiply/hadamard x update_full x cold/warm measures, log-factor integral, slice, product), diagonal measures/densities vs full ones (17 operations), diag / identity / identity-diag / NN-control conditionals vs ConditionalGaussianPDF built from the same parameters (12 operations, all batch combos): every public attribute present on both sides and evaluate_ln must agree; one-sided exceptions are violations.",
      _NOTE, "DESIGN.md §2 C15")
claim("C04", "model-based property-based testing over generated operation histories (Hypothesis op-list strategy), invariant + cold-clone differential",
      "Histories of <=5 (quick) / <=8 (thorough) steps over a pool of measures, densities and conditionals (products via fast paths or inversion, slice, update, normalize, marginals, conditioning, exact and moment-matched transformations, heteroscedastic cond(x)) interleaved with cache-warming queries: after every step every cached Sigma / log-det / mu / lnZ of every pooled object is compared with numpy's value from its own (Lambda, nu), and every producing step is re-run on cold clones to show results do not depend on prior queries.",
      _NOTE, "DESIGN.md §2 C04")
claim("C12", "metamorphic property-based testing (Hypothesis): slicing commutes with generated operations",
      "op(objects).slice(idx') is compared with op(sliced objects) for measures/densities (12+6 operations incl. integrals with per-component coefficients), products (multiply/hadamard with both batches, layout i*R2+j), all conditional classes incl. NN-control (10 operations, batch on the conditional or on p(x), layout r*N+n) with idx arrays containing repetitions, negatives, permutations and singletons; update(idx,d) against numpy assignment.",
      _NOTE, "DESIGN.md §2 C12")
claim("C16", "property-based testing (Hypothesis); two-resolution Gauss-Hermite oracle (feature models) and independent closed forms + scipy quad (heteroscedastic)",
      "Marginal / joint / conditional moment-matched transformations of RBF and squared-exponential feature models and the four heteroscedastic classes (non-zero offsets, Da=Dy and Da>Dy, batched p(x)) are compared with E m, E S + Cov m, Cov(y,x) of the object's own p(y|x) (m, S re-computed in numpy from the documented unit-height kernels / links and checked against cond(x)); the conditional transformation with the Gaussian conditional of that joint.",
      _NOTE, "DESIGN.md §2 C16")
claim("C17", "property-based testing (Hypothesis); oracle = adaptive quadrature of the true expectation (exact 1-D reductions) ",
      "cond(x) mean/covariance/precision/log-det against numpy; integrate_log_conditional_y (single and paired (p_x,y)) against E_p(x) ln p(y|x) by piecewise scipy quad (Dx=1 any Dk; Dx>=2 with one unit via the exact reduction to h; Dx=2,Dk=2 smooth links via two-resolution Gauss-Hermite): never above the truth (exp, cosh-1, ReLU), equal to it (step); tightness by the decay ratio of the gap under shrinking input weights and exact zero gap at zero weights (exp, cosh-1). Da>Dy and the singular (g,h) case are listed findings.",
      _NOTE, "DESIGN.md §2 C17")
claim("C19", "property-based testing (Hypothesis); structural oracle with statistical fallback",
      "sample(key,n): shape, determinism in the key, and the whitened draws of each component reproduce the key's standard-normal stream as a multiset (pairing of Cholesky factors with components); a sampler that is structurally different is judged by a 6-standard-error battery at n=200000 (mean, covariance, cross-component and lag-1 correlation, KS), which also runs unconditionally on a few cases.",
      _NOTE, "DESIGN.md §2 C19")
claim("C20", "property-based testing (Hypothesis) against scipy adaptive quadrature",
      "Truncated measures (scalar / per-component, one- and two-sided, near-mode and far-tail limits within 12 sigma): evaluation inside/outside/at the limits, integrals of 1, x, x^2, x^k (k 0..6) against quad of x^k u(x), additivity over adjacent intervals, and both normalised variants (get_density(), direct construction on normalised and un-normalised measures): evaluation, unit mass, mean, variance.",
      _NOTE, "DESIGN.md §2 C20")
claim("C18", "property-based testing over generated programs (Hypothesis): eager vs jit vs vmap, reverse-mode gradient vs central differences, pytree / dict round trips",
      "Boundary crossings (flatten/unflatten, jit argument, jit result, scan carry, to_dict/from_dict) for the 12 factor / measure / density / linear-conditional classes, cold and warm; generated pipelines (start kind -> 0-3 products/slices/normalisations -> each of 15 terminals incl. all 12 integrals; 13 conditional / approximate-conditional / Kalman-scan / truncated programs) run eagerly, under jit, under vmap over the data axis, and differentiated w.r.t. every continuous parameter against central differences along 3 drawn directions.",
      _NOTE, "DESIGN.md §2 C18")
