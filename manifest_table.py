# executed by tools_manifest.py
_NOTE = ("Trusted base: numpy/scipy reference formulas in vp/oracle.py and the per-property oracle code, Hypothesis as generator/shrinker, "
         "JAX/XLA numerics. Explored bounds (dims, batch sizes, case counts) are in the evidence file; absence beyond them is not shown.")
claim("C01", "property-based testing (Hypothesis) against an independent numpy oracle",
      "Generated measures (4 kinds x 3 cache states) x factors (6 kinds) x {multiply,*,hadamard,product} x update_full are evaluated pointwise and compared with ln u_i(x)+ln f_j(x) computed in numpy from the constructor inputs, at the documented component layout; operand immutability checked bytewise.",
      _NOTE, "DESIGN.md §2 C01")
