#!/usr/bin/env python3
"""Regenerates MANIFEST.json from the table below (keeps it schema-valid at all times)."""
import json, os
HERE = os.path.dirname(os.path.abspath(__file__))
BASE = json.load(open('/root/.vp/BASELINE.json'))

# property -> (technique, level text, level note, design ref)
CLAIMED = {}
NOT_YET = {}

def claim(pid, technique, text, note, ref):
    CLAIMED[pid] = (technique, text, note, ref)

exec(open(os.path.join(HERE, 'manifest_table.py')).read())

props = [json.loads(l)['id'] for l in open(os.path.join(HERE, 'properties.jsonl'))]
checks = []
for pid in props:
    if pid not in CLAIMED:
        continue
    t, text, note, ref = CLAIMED[pid]
    checks.append({
        "property_id": pid,
        "quick_cmd": f"./check {pid} quick",
        "thorough_cmd": f"./check {pid} thorough",
        "evidence_file": f"evidence/{pid}.json",
        "replay_cmd_template": f"./check {pid} --replay {{path}}",
        "engine": "vp-hypothesis",
        "level_claimed": {"category": "exploration", "text": text, "design_ref": ref},
        "level_note": note,
        "technique": t,
    })
na = [{"property_id": p, "reason": NOT_YET.get(p, "check not built yet (in progress); no claim made")} for p in props if p not in CLAIMED]
man = {
    "version": 1,
    "setup_cmd": "./setup.sh",
    "hooks": {
        "guard": "GAUSSIAN_TOOLBOX_VERIF",
        "enable": "no source hooks are needed: every observation point is a public attribute or return value; checks import /repo's working tree directly (sys.path[0]=/repo) with GAUSSIAN_TOOLBOX_VERIF=1 exported for uniformity",
        "baseline_off_cmd": BASE["cmd"].replace("--junitxml=<file>", "").strip(),
        "source_commits": [],
        "add_only": True,
    },
    "engines": [{
        "name": "vp-hypothesis",
        "path": "vp/",
        "serves_properties": sorted(CLAIMED),
        "kind_free_text": "Hypothesis-driven property-based testing: structured generators (shape pools x kinds x numeric payloads, op-list histories), independent numpy/scipy oracles, label-bucketed shrinking to JSON replay files, sharded over 16 processes",
    }],
    "checks": checks,
    "not_applicable": na,
    "notes": "All checks: ./check <id> <quick|thorough>; replay: ./check <id> --replay <file>. KNOWN_FINDINGS.txt lists open findings (reported as KNOWN-FINDING lines) and fixed ones. Exit 2 = harness error / inconclusive.",
}
json.dump(man, open(os.path.join(HERE, 'MANIFEST.json'), 'w'), indent=1)
print("claimed", sorted(CLAIMED), "unclaimed", [n['property_id'] for n in na])
