#!/usr/bin/env python3
"""Sensitivity self-test: apply one small source mutation to a scratch worktree of /repo (HEAD) and
confirm that the named property checks report a VIOLATION (exit 1).

  selftest/mutants.py list
  selftest/mutants.py run [name-substring ...] [--tier quick] [--tests]   # --tests also runs the repo's own suite on the mutant
Results are appended to selftest/RESULTS.md.  Scratch trees live under /tmp and are removed.
"""
import os
import subprocess
import sys
import tempfile
import time

HERE = os.path.dirname(os.path.abspath(__file__))
VERIF = os.path.dirname(HERE)

# name, file, old, new, [properties expected to catch it]
M = []


def mut(name, file, old, new, props, count=1):
    M.append(dict(name=name, file=file, old=old, new=new, props=props, count=count))


exec(open(os.path.join(HERE, "mutant_table.py")).read())


def sh(cmd, **kw):
    return subprocess.run(cmd, shell=True, capture_output=True, text=True, **kw)


def run_one(m, tier, tests):
    wt = tempfile.mkdtemp(prefix="gtmut.", dir="/tmp")
    os.rmdir(wt)
    r = sh(f"git -C /repo worktree add -q --detach {wt} HEAD")
    assert r.returncode == 0, r.stderr
    rows = []
    try:
        p = os.path.join(wt, m["file"])
        s = open(p).read()
        assert s.count(m["old"]) >= 1, f"{m['name']}: pattern not found"
        if m["count"] == 1:
            assert s.count(m["old"]) == 1, f"{m['name']}: pattern occurs {s.count(m['old'])} times"
        s = s.replace(m["old"], m["new"])
        open(p, "w").write(s)
        test_res = ""
        if tests:
            t = sh(f"cd {wt} && /venv/bin/python -m pytest -q -p no:cacheprovider -n 8 -x 2>&1 | tail -1")
            test_res = t.stdout.strip()
        for prop in m["props"]:
            t0 = time.time()
            env = dict(os.environ, VERIF_REPO=wt, VERIF_REPLAY_DIR=os.path.join(wt, ".replays"),
                       VERIF_EVIDENCE_DIR=os.path.join(wt, ".evidence"))
            r = subprocess.run(["./check", prop, tier], cwd=VERIF, env=env, capture_output=True, text=True)
            viol = [l for l in r.stdout.splitlines() if l.startswith("VIOLATION")]
            first = [l for l in r.stdout.splitlines() if l.startswith("  [")]
            rows.append((m["name"], prop, r.returncode, len(viol), (first[0][:160] if first else ""), time.time() - t0, test_res))
    finally:
        sh(f"git -C /repo worktree remove --force {wt}")
    return rows


def main():
    args = sys.argv[1:]
    if not args or args[0] == "list":
        for m in M:
            print(m["name"], m["file"], m["props"])
        return
    tier = "quick"
    tests = "--tests" in args
    if "--tier" in args:
        tier = args[args.index("--tier") + 1]
    pats = [a for a in args[1:] if not a.startswith("--") and a not in ("quick", "thorough")]
    sel = [m for m in M if not pats or any(p in m["name"] for p in pats)]
    out = []
    for m in sel:
        try:
            rows = run_one(m, tier, tests)
        except AssertionError as e:
            line = f"| {m['name']} | - | {tier} | ERROR | 0 | 0s | {e} |  |"
            print(line, flush=True)
            out.append(line)
            continue
        for r in rows:
            status = "CAUGHT" if r[2] == 1 else ("MISSED" if r[2] == 0 else "ERROR")
            line = f"| {r[0]} | {r[1]} | {tier} | {status} | {r[3]} | {r[5]:.0f}s | {r[4].replace('|','/')} | {r[6]} |"
            print(line, flush=True)
            out.append(line)
    with open(os.path.join(HERE, "RESULTS.md"), "a") as f:
        f.write(f"\n<!-- run {time.strftime('%Y-%m-%d %H:%M')} /repo HEAD {sh('git -C /repo rev-parse --short HEAD').stdout.strip()} -->\n")
        for l in out:
            f.write(l + "\n")


if __name__ == "__main__":
    main()
