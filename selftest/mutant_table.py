# executed by mutants.py :  mut(name, file, old, new, [props])
ME = "gaussian_toolbox/measure.py"
FA = "gaussian_toolbox/factor.py"
CO = "gaussian_toolbox/conditional.py"
PD = "gaussian_toolbox/pdf.py"
AC = "gaussian_toolbox/approximate_conditional.py"
TR = "gaussian_toolbox/experimental/truncated_measure.py"
DC = "gaussian_toolbox/utils/dataclass.py"
LA = "gaussian_toolbox/utils/linalg.py"

# ---- C01
mut("c01_outer_sum_axes", FA, '''        Lambda_new = jnp.reshape(
            (measure.Lambda[:, None] + self.Lambda[None]),
            (measure.R * self.R, self.D, self.D),
        )
        nu_new = jnp.reshape(
            (measure.nu[:, None] + self.nu[None]), (measure.R * self.R, self.D)
        )
        ln_beta_new = jnp.reshape(
            (measure.ln_beta[:, None] + self.ln_beta[None]), (measure.R * self.R)
        )
        new_density_dict = {"Lambda": Lambda_new, "nu": nu_new, "ln_beta": ln_beta_new}
        if update_full:
            Sigma_new, ln_det_Lambda_new = linalg.invert_matrix(Lambda_new)''',
    '''        Lambda_new = jnp.reshape(
            (measure.Lambda[None] + self.Lambda[:, None]),
            (measure.R * self.R, self.D, self.D),
        )
        nu_new = jnp.reshape(
            (measure.nu[None] + self.nu[:, None]), (measure.R * self.R, self.D)
        )
        ln_beta_new = jnp.reshape(
            (measure.ln_beta[None] + self.ln_beta[:, None]), (measure.R * self.R)
        )
        new_density_dict = {"Lambda": Lambda_new, "nu": nu_new, "ln_beta": ln_beta_new}
        if update_full:
            Sigma_new, ln_det_Lambda_new = linalg.invert_matrix(Lambda_new)''', ["C01"])
mut("c01_hadamard_inplace", FA, '''        Lambda_new = measure.Lambda + self.Lambda
        nu_new = measure.nu + self.nu
        ln_beta_new = measure.ln_beta + self.ln_beta
        new_density_dict = {"Lambda": Lambda_new, "nu": nu_new, "ln_beta": ln_beta_new}
        if update_full:
            Sigma_new, ln_det_Lambda_new = linalg.invert_matrix(Lambda_new)''',
    '''        Lambda_new = measure.Lambda + self.Lambda
        measure.nu = measure.nu + self.nu
        nu_new = measure.nu
        ln_beta_new = measure.ln_beta + self.ln_beta
        new_density_dict = {"Lambda": Lambda_new, "nu": nu_new, "ln_beta": ln_beta_new}
        if update_full:
            Sigma_new, ln_det_Lambda_new = linalg.invert_matrix(Lambda_new)''', ["C01"])
# ---- C02
mut("c02_lnZ_drop_nuSnu", ME, '''        self.lnZ = 0.5 * (
            nu_Lambda_nu + self.D * jnp.log(2.0 * jnp.pi) + self.ln_det_Sigma
        )''', '''        self.lnZ = 0.5 * (
            self.D * jnp.log(2.0 * jnp.pi) + self.ln_det_Sigma
        )''', ["C02"])
mut("c02_get_density_wrong_logdet", ME, '''            ln_det_Sigma=self.ln_det_Sigma,
        )

    def _get_default(''', '''            ln_det_Sigma=self.ln_det_Lambda,
        )

    def _get_default(''', ["C02"])
# ---- C03
mut("c03_quartic_outer_third_sign", ME, "third_term = BmubCmuc[:, None, None] * (ASigmaD - AmuaDmud)",
    "third_term = BmubCmuc[:, None, None] * (ASigmaD + AmuaDmud)", ["C03"])
mut("c03_default_vec_len", ME, "vec = jnp.zeros(mat.shape[-2])", "vec = jnp.zeros(mat.shape[-1])", ["C03"])
mut("c03_cubic_outer_sigma_for_exx", ME, '''        xAxx = self._expectation_xbxx(b_vec=A_mat)
        axx = a_vec[:, None, None] * self._expectation_xxT()''', '''        xAxx = self._expectation_xbxx(b_vec=A_mat)
        axx = a_vec[:, None, None] * self.Sigma''', ["C03"])
# ---- C07 / C08 / C09 / C10
mut("c07_offdiag_not_transposed", CO, '''        L_xy = jnp.tile(-Lambda_yM[:, None], (1, p_x.R, 1, 1)).reshape(
            (R, self.Dy, p_x.D)
        )''', '''        L_xy = jnp.tile(Lambda_yM[:, None], (1, p_x.R, 1, 1)).reshape(
            (R, self.Dy, p_x.D)
        )''', ["C07"])
mut("c07_branch_ge", CO, '''        if p_x.D > self.Dy:
            CLambda_x = jnp.einsum(''', '''        if p_x.D >= self.Dy + 2:
            CLambda_x = jnp.einsum(''', [])
mut("c08_noise_omitted", CO, '''        MSigmaM = jnp.einsum("abcd,aed->abce", MSigma_x, self.M)
        Sigma_y = (self.Sigma[:, None] + MSigmaM).reshape((R, self.Dy, self.Dy))
        return pdf.GaussianPDF(Sigma=Sigma_y, mu=mu_y)''', '''        MSigmaM = jnp.einsum("abcd,aed->abce", MSigma_x, self.M)
        Sigma_y = (0.5 * self.Sigma[:, None] + MSigmaM).reshape((R, self.Dy, self.Dy))
        return pdf.GaussianPDF(Sigma=Sigma_y, mu=mu_y)''', ["C08"])
mut("c08_identity_marginal_pairing", CO, '''        Sigma_y = (self.Sigma[:, None] + p_x.Sigma[:, None]).reshape(
            (R, self.Dy, self.Dy)
        )''', '''        Sigma_y = (self.Sigma[:, None] + p_x.Sigma[:1, None]).reshape(
            (R, self.Dy, self.Dy)
        )''', ["C08"])
mut("c09_prior_nu_dropped", CO, '''        b_x = -jnp.einsum("abcd,ad->abc", M_x, self.b)
        b_x += jnp.einsum(''', '''        b_x = -jnp.einsum("abcd,ad->abc", M_x, self.b)
        b_x += 0.5 * jnp.einsum(''', ["C09"])
mut("c09_identity_gain_sigma", CO, '''            Sigma_x.reshape((self.R, p_x.R, p_x.D, p_x.D)),
            self.Lambda,
        )  # [R1, R, D, Dy]''', '''            Sigma_x.reshape((self.R, p_x.R, p_x.D, p_x.D)),
            self.Sigma,
        )  # [R1, R, D, Dy]''', ["C09"])
mut("c10_nu_from_y", CO, '''            jnp.einsum("abc, acd -> abd", self.Lambda, self.M),
            y_minus_b,
        )''', '''            jnp.einsum("abc, acd -> abd", self.Lambda, self.M),
            y,
        )''', ["C10"])
mut("c10_logdet_sign", CO, '''        ln_beta_new = -0.5 * (
            yb_Lambda_yb + self.Dx * jnp.log(2 * jnp.pi) + self.ln_det_Sigma
        )''', '''        ln_beta_new = -0.5 * (
            yb_Lambda_yb + self.Dx * jnp.log(2 * jnp.pi) - self.ln_det_Sigma
        )''', ["C10"])
# ---- C05 / C06
mut("c05_marginal_precision_slice", PD, '''        marginal_density = GaussianPDF(Sigma=Sigma_new, mu=mu_new)
        return marginal_density

    def entropy''', '''        Lambda_new = self.Lambda[jnp.ix_(jnp.arange(self.Sigma.shape[0]), dim_x, dim_x)]
        marginal_density = GaussianPDF(Sigma=Sigma_new, mu=mu_new, Lambda=Lambda_new)
        return marginal_density

    def entropy''', ["C05", "C02"])
mut("c05_linear_sum_b_dropped", PD, '''        if b is not None:
            mu_sum += b''', '''        if b is not None and b.shape[0] == 1:
            mu_sum += b''', ["C05"])
mut("c05_linear_sum_einsum", PD, '"abc,acd,aed->abe", W, self.Sigma, W', '"abc,adc,aed->abe", W, self.Sigma, W', [])
mut("c06_M_sign", PD, '''        Lambda_x = self.Lambda[:, dim_x][:, :, dim_x]
        Sigma_x, ln_det_Lambda_x = invert_matrix(Lambda_x)
        M_x = -jnp.einsum("abc,acd->abd", Sigma_x, self.Lambda[:, dim_x][:, :, dim_y])
        b_x = self.mu[:, dim_x] - jnp.einsum("abc,ac->ab", M_x, self.mu[:, dim_y])
        return conditional.ConditionalGaussianPDF(
            M=M_x, b=b_x, Sigma=Sigma_x, Lambda=Lambda_x, ln_det_Sigma=-ln_det_Lambda_x
        )

    def condition_on_explicit''', '''        Lambda_x = self.Lambda[:, dim_x][:, :, dim_x]
        Sigma_x, ln_det_Lambda_x = invert_matrix(Lambda_x)
        M_x = jnp.einsum("abc,acd->abd", Sigma_x, self.Lambda[:, dim_x][:, :, dim_y])
        b_x = self.mu[:, dim_x] - jnp.einsum("abc,ac->ab", M_x, self.mu[:, dim_y])
        return conditional.ConditionalGaussianPDF(
            M=M_x, b=b_x, Sigma=Sigma_x, Lambda=Lambda_x, ln_det_Sigma=-ln_det_Lambda_x
        )

    def condition_on_explicit''', ["C06"])
mut("c06_b_unpermuted", PD, '''        b_x = self.mu[:, dim_x] - jnp.einsum("abc,ac->ab", M_x, self.mu[:, dim_y])
        return conditional.ConditionalGaussianPDF(
            M=M_x, b=b_x, Sigma=Sigma_x, Lambda=Lambda_x, ln_det_Sigma=-ln_det_Lambda_x
        )

    def condition_on_explicit''', '''        b_x = self.mu[:, dim_x] - jnp.einsum("abc,ac->ab", M_x, self.mu[:, jnp.sort(dim_y)])
        return conditional.ConditionalGaussianPDF(
            M=M_x, b=b_x, Sigma=Sigma_x, Lambda=Lambda_x, ln_det_Sigma=-ln_det_Lambda_x
        )

    def condition_on_explicit''', ["C06"])
# ---- C13
mut("c13_kl_without_D", PD, '''            + dmu_Sigma_dmu
            - self.D
''', '''            + dmu_Sigma_dmu
''', ["C13"])
mut("c13_entropy_without_one", PD, "entropy = 0.5 * (self.D * (1.0 + jnp.log(2 * jnp.pi)) + self.ln_det_Sigma)",
    "entropy = 0.5 * (self.D * (jnp.log(2 * jnp.pi)) + self.ln_det_Sigma)", ["C13"])
mut("c13_mi_from_prior_entropy", CO, '''        p_y = self.affine_marginal_transformation(p_x, **kwargs)
        mutual_info = p_y.entropy() - cond_entropy
        return mutual_info

    def update_Sigma(self, Sigma_new: Float[Array, "R Dy Dy"]):
        """Updates the covariance matrix :math:`\\Sigma`.

        Args:
            Sigma_new: The new covariance matrix

''', '''        p_y = self.affine_marginal_transformation(p_x, **kwargs)
        mutual_info = p_x.entropy() - cond_entropy
        return mutual_info

    def update_Sigma(self, Sigma_new: Float[Array, "R Dy Dy"]):
        """Updates the covariance matrix :math:`\\Sigma`.

        Args:
            Sigma_new: The new covariance matrix

''', ["C13"])
# ---- C04
mut("c04_det_lemma_sign", FA, '''                ln_det_Sigma_new = measure.ln_det_Sigma[:, None] - jnp.log(denominator)''',
    '''                ln_det_Sigma_new = measure.ln_det_Sigma[:, None] + jnp.log(denominator)''', ["C04", "C15"])
mut("c04_sherman_morrison_no_g", FA, '''                nominator = self.g[:, None, None] * jnp.einsum(
                    "ab,ac->abc", Sigma_v, Sigma_v
                )''', '''                nominator = jnp.einsum(
                    "ab,ac->abc", Sigma_v, Sigma_v
                )''', ["C04", "C15"])
mut("c04_linear_multiply_logdet_sign", FA, '''                ln_det_Sigma_new = jnp.tile(
                    measure.ln_det_Sigma[:, None], (1, self.R)
                ).reshape(measure.R * self.R)
                ln_det_Lambda_new = -ln_det_Sigma_new
            new_density_dict.update(
                {
                    "Sigma": Sigma_new,
                    "ln_det_Lambda": ln_det_Lambda_new,
                    "ln_det_Sigma": ln_det_Sigma_new,
                }
            )
        return new_density_dict

    def _hadamard_with_measure(
        self, measure: "GaussianMeasure", update_full: bool = True
    ) -> Dict:
        r"""Compute the hadamard (componentwise) product between the current factor and a Gaussian measure :math:`u(X)`.

             Returns''', '''                ln_det_Sigma_new = jnp.tile(
                    measure.ln_det_Sigma[:, None], (1, self.R)
                ).reshape(measure.R * self.R)
                ln_det_Lambda_new = ln_det_Sigma_new
            new_density_dict.update(
                {
                    "Sigma": Sigma_new,
                    "ln_det_Lambda": ln_det_Lambda_new,
                    "ln_det_Sigma": ln_det_Sigma_new,
                }
            )
        return new_density_dict

    def _hadamard_with_measure(
        self, measure: "GaussianMeasure", update_full: bool = True
    ) -> Dict:
        r"""Compute the hadamard (componentwise) product between the current factor and a Gaussian measure :math:`u(X)`.

             Returns''', ["C04", "C15"])
mut("c04_slice_stale_logdet", ME, '''        if self.Sigma is not None:
            new_measure.Sigma = jnp.take(self.Sigma, indices, axis=0)
            new_measure.ln_det_Sigma = jnp.take(self.ln_det_Sigma, indices, axis=0)
            new_measure.ln_det_Lambda = jnp.take(self.ln_det_Lambda, indices, axis=0)
        return new_measure

    def _prepare_integration''', '''        if self.Sigma is not None:
            new_measure.Sigma = jnp.take(self.Sigma, indices, axis=0)
            new_measure.ln_det_Sigma = jnp.take(self.ln_det_Sigma, jnp.zeros_like(indices), axis=0)
            new_measure.ln_det_Lambda = jnp.take(self.ln_det_Lambda, indices, axis=0)
        return new_measure

    def _prepare_integration''', ["C04", "C12"])
mut("c04_product_keeps_lnZ", ME, '''        new_measure = GaussianMeasure(Lambda=Lambda_new, nu=nu_new, ln_beta=ln_beta_new)
        if self.Sigma is not None:
            new_measure._prepare_integration()
        return new_measure''', '''        new_measure = GaussianMeasure(Lambda=Lambda_new, nu=nu_new, ln_beta=ln_beta_new)
        if self.Sigma is not None:
            new_measure._prepare_integration()
            if self.lnZ is not None:
                new_measure.lnZ = self.lnZ[:1]
        return new_measure''', ["C04"])
# ---- C12
mut("c12_condition_on_x_tile_axes", CO, '''        ln_det_Sigma_new = jnp.tile(self.ln_det_Sigma[:, None], (1, N)).reshape(
            self.R * N
        )
        return pdf.GaussianPDF(
            Sigma=Sigma_new,
            mu=mu_new,
            Lambda=Lambda_new,
            ln_det_Sigma=ln_det_Sigma_new,
        )

    def set_y(self, y: Float[Array, "N Dy"], **kwargs) -> factor.ConjugateFactor:''', '''        ln_det_Sigma_new = jnp.tile(self.ln_det_Sigma[None, :], (N, 1)).reshape(
            self.R * N
        )
        return pdf.GaussianPDF(
            Sigma=Sigma_new,
            mu=mu_new,
            Lambda=Lambda_new,
            ln_det_Sigma=ln_det_Sigma_new,
        )

    def set_y(self, y: Float[Array, "N Dy"], **kwargs) -> factor.ConjugateFactor:''', ["C12", "C02"])
mut("c12_update_mu_not_nu", PD, '''        self.lnZ = self.lnZ.at[indices].set(density.lnZ)
        self.nu = self.nu.at[indices].set(density.nu)
        self.ln_beta = self.ln_beta.at[indices].set(density.ln_beta)

    def get_marginal(self, dim_x''', '''        self.lnZ = self.lnZ.at[indices].set(density.lnZ)
        self.ln_beta = self.ln_beta.at[indices].set(density.ln_beta)

    def get_marginal(self, dim_x''', ["C12", "C04"])
mut("c12_kl_uses_first_component", PD, "dmu = p1.mu - self.mu", "dmu = p1.mu - self.mu[:1]", ["C12", "C13"])
# ---- C15
mut("c15_invert_diagonal_logdet", LA, "    ln_det_A = jnp.sum(jnp.log(A.diagonal(axis1=1, axis2=2)), axis=1)\n    return A_inv, ln_det_A",
    "    ln_det_A = -jnp.sum(jnp.log(A.diagonal(axis1=1, axis2=2)), axis=1)\n    return A_inv, ln_det_A", ["C15", "C02"])
mut("c15_identity_marginal_sigma_twice", CO, '''        Sigma_y = (self.Sigma[:, None] + p_x.Sigma[:, None]).reshape(''', '''        Sigma_y = (2.0 * self.Sigma[:, None] + p_x.Sigma[:, None]).reshape(''', ["C15", "C08"])
# ---- C11 / C14
mut("c11_product_lnbeta_mean", FA, '''        ln_beta_new = jnp.sum(self.ln_beta, axis=0, keepdims=True)
        return ConjugateFactor(Lambda=Lambda_new, nu=nu_new, ln_beta=ln_beta_new)''', '''        ln_beta_new = jnp.mean(self.ln_beta, axis=0, keepdims=True)
        return ConjugateFactor(Lambda=Lambda_new, nu=nu_new, ln_beta=ln_beta_new)''', ["C11", "C10"])
mut("c14_kernel_cross_factor", AC, '''            quadratic_integral
            - 2 * lin_kernel_integral
            + kernel_kernel_integral
            + constant
        )
        return log_expectation

    def integrate_log_conditional_y(
        self, p_x: pdf.GaussianPDF, y: Float[Array, "R Dy"] = None, **kwargs
    ) -> Union[callable, Float[Array, "R Dy"]]:''', '''            quadratic_integral
            - lin_kernel_integral
            + kernel_kernel_integral
            + constant
        )
        return log_expectation

    def integrate_log_conditional_y(
        self, p_x: pdf.GaussianPDF, y: Float[Array, "R Dy"] = None, **kwargs
    ) -> Union[callable, Float[Array, "R Dy"]]:''', ["C14"])
mut("c14_log_factor_linear_term", FA, '''        linear_integral = jnp.einsum("ab,ab->a", self.nu, phi_x.integrate("x"))''',
    '''        linear_integral = jnp.einsum("ab,ab->a", self.nu, phi_x.integrate("x")) * 0.5''', ["C14"])
# ---- C20
mut("c20_recursion_factor", TR, "L_new = -(beta_pdf - alpha_pdf) / denominator + (k - 1) * L2", "L_new = -(beta_pdf - alpha_pdf) / denominator + k * L2", ["C20"])
mut("c20_boundary_sign", TR, '''        mean = self.density.mu + (
            normal_pdf(self.alpha) - normal_pdf(self.beta)
        )''', '''        mean = self.density.mu + (
            normal_pdf(self.beta) - normal_pdf(self.alpha)
        )''', ["C20"])
mut("c20_binom_order", TR, '''            moments = jnp.sum(
                binom(order, k_range)''', '''            moments = jnp.sum(
                binom(order + 1, k_range)''', ["C20"])
mut("c20_open_upper_limit", TR, '''                    jnp.greater_equal(x[None], self.lower_limit[:, None]),
                    jnp.less_equal(x[None], self.upper_limit[:, None]),''', '''                    jnp.greater_equal(x[None], self.lower_limit[:, None]),
                    jnp.less(x[None], self.upper_limit[:, None]),''', ["C20"])
# ---- C19
mut("c19_cholesky_transposed", PD, '"abc,dac->dab", L, rand_nums', '"acb,dac->dab", L, rand_nums', ["C19"])
mut("c19_wrong_component_pairing", PD, '''        L = jnp.linalg.cholesky(self.Sigma)
        x_samples''', '''        L = jnp.roll(jnp.linalg.cholesky(self.Sigma), 1, axis=0)
        x_samples''', ["C19"])
mut("c19_shared_noise_across_components", PD, '''        rand_nums = jax.random.normal(key, (num_samples, self.R, self.D))''', '''        rand_nums = jnp.tile(jax.random.normal(key, (num_samples, 1, self.D)), (1, self.R, 1))''', ["C19"])
mut("c19_valid_other_sampler", PD, '''        L = jnp.linalg.cholesky(self.Sigma)
        x_samples''', '''        w_, V_ = jnp.linalg.eigh(self.Sigma)
        L = V_ * jnp.sqrt(w_)[:, None, :]
        x_samples''', [])
# ---- C16
mut("c16_Ekk_single_kernel", AC, '''        Ekk = (
            p_k.multiply(self.k_func, update_full=True)
            .integrate()
            .reshape((p_x.R, self.Dk, self.Dk))
        )''', '''        Ekk = (
            p_k.multiply(self.k_func, update_full=True)
            .integrate()
            .reshape((p_x.R, self.Dk, self.Dk))
        )
        Ekk = 0.5 * (Ekk + jnp.einsum("ab,ac->abc", Ekx.reshape((p_x.R, -1))[:, : self.Dk] * 0 + p_k.integrate().reshape((p_x.R, self.Dk)), p_k.integrate().reshape((p_x.R, self.Dk))))''', ["C16"])
mut("c16_cross_cov_no_mean_term", AC, '''        mu_x = p_x.mu
        cov_yx = Eyx - mu_y[:, :, None] * mu_x[:, None]
        mu_xy = jnp.concatenate([mu_x, mu_y], axis=1)

        Sigma_xy = jnp.block(''', '''        mu_x = p_x.mu
        cov_yx = Eyx
        mu_xy = jnp.concatenate([mu_x, mu_y], axis=1)

        Sigma_xy = jnp.block(''', ["C16"])
mut("c16_exp_link_offset_sign", AC, '''        nu = self.W[:, 1:]
        ln_beta = self.W[:, 0]
        exp_h = factor.LinearFactor(nu=nu, ln_beta=ln_beta)''', '''        nu = self.W[:, 1:]
        ln_beta = -self.W[:, 0]
        exp_h = factor.LinearFactor(nu=nu, ln_beta=ln_beta)''', ["C16"])
mut("c16_lrbf_kernel_height", AC, "        ln_beta = -0.5 * jnp.sum((self.mu / self.length_scale) ** 2, axis=1)\n", "        ln_beta = -0.5 * jnp.sum((self.mu / self.length_scale) ** 2, axis=1) - 0.5 * jnp.sum(jnp.log(self.length_scale ** 2), axis=1) * 0.1\n", ["C16", "C14"])
# ---- C17
mut("c17_exp_logdet_drops_Eh", AC, "        return .5 * Eh + fomega + .5 * fprime_omega  / omega_dagger * (Eh2 - omega_dagger ** 2)",
    "        return fomega + .5 * fprime_omega  / omega_dagger * (Eh2 - omega_dagger ** 2)", ["C17"])
mut("c17_cosh_logdet_loose_constant", AC, "        f_omega = jnp.log(jnp.cosh(omega_dagger))\n        fprime_omega = jnp.tanh(omega_dagger)\n        return",
    "        f_omega = jnp.log(jnp.cosh(omega_dagger)) + 0.01\n        fprime_omega = jnp.tanh(omega_dagger)\n        return", ["C17"])
mut("c17_relu_c0_sign", AC, '''        c0 = jnp.log(1. + omega_dagger)
        c1 = 1 / (1. + omega_dagger)''', '''        c0 = -jnp.log(1. + omega_dagger)
        c1 = 1 / (1. + omega_dagger)''', ["C17"])
mut("c17_heaviside_logdet_ln2", AC, "int_ln1pf_h = jnp.log(2.) * vmap(integrate_f_i, out_axes=0)(w, w0)", "int_ln1pf_h = 0.7 * vmap(integrate_f_i, out_axes=0)(w, w0)", ["C17"])
mut("c17_cond_cov_precision", AC, "            G_x = D_x / (1 + D_x) # [N x Dk]", "            G_x = D_x / (2 + D_x) # [N x Dk]", ["C17", "C02"])
# ---- C18
mut("c18_stop_gradient_removed", AC, "        omega_star = lax.stop_gradient(self._get_omega_star(p_x=p_x, y=y, W_i=W_i, a_i=a_i))",
    "        omega_star = self._get_omega_star(p_x=p_x, y=y, W_i=W_i, a_i=a_i)", ["C18"])
mut("c18_python_branch_on_value", CO, '''        y_minus_b = y - self.b
        Lambda_new = jnp.einsum(''', '''        if jnp.any(jnp.isnan(y)):
            raise ValueError("y contains NaN")
        y_minus_b = y - self.b
        Lambda_new = jnp.einsum(''', ["C18"])
mut("c18_to_dict_logdet_sign", PD, '''            "ln_det_Sigma": self.ln_det_Sigma,
        }
        return density_dict''', '''            "ln_det_Sigma": -self.ln_det_Sigma,
        }
        return density_dict''', ["C18"])
mut("c18_logdet_gradient_blocked", LA, "    ln_det_A = 2.0 * jnp.sum(jnp.log(L[0].diagonal(axis1=-1, axis2=-2)), axis=1)\n    return A_inv, ln_det_A",
    "    from jax import lax\n    ln_det_A = 2.0 * jnp.sum(jnp.log(lax.stop_gradient(L[0]).diagonal(axis1=-1, axis2=-2)), axis=1)\n    return A_inv, ln_det_A", ["C18"])
mut("c18_unflatten_drops_caches", DC, '''        obj.__dict__.update(state)
        return obj''', '''        return obj''', ["C18"])
mut("c18_vmap_unsafe_reshape", ME, '''        return jnp.einsum("a,ab->ab", constant, self._expectation_x())''', '''        return (constant.reshape((-1, 1)) * self._expectation_x().reshape((constant.shape[0], -1))).reshape(self.mu.shape)''', [])
mut("c18_omega_loop_dead_again", AC, "        omega_dagger = jnp.full_like(omega_star, jnp.inf)", "        omega_dagger = omega_star", ["C18"])
# ---- memoised results keyed wrongly (second query on the same object)
mut("c05_marginal_memo_ignores_dims", PD, '''        idx = jnp.ix_(jnp.arange(self.Sigma.shape[0]), dim_x, dim_x)
        Sigma_new = self.Sigma[idx]
        idx = jnp.ix_(jnp.arange(self.mu.shape[0]), dim_x)
        mu_new = self.mu[idx]
        marginal_density = GaussianPDF(Sigma=Sigma_new, mu=mu_new)
        return marginal_density''', '''        memo = self.__dict__.get("_marginal_memo")
        if memo is not None and memo[0] == len(dim_x) and memo[1] is self.Sigma:
            return memo[2]
        idx = jnp.ix_(jnp.arange(self.Sigma.shape[0]), dim_x, dim_x)
        Sigma_new = self.Sigma[idx]
        idx = jnp.ix_(jnp.arange(self.mu.shape[0]), dim_x)
        mu_new = self.mu[idx]
        marginal_density = GaussianPDF(Sigma=Sigma_new, mu=mu_new)
        self.__dict__["_marginal_memo"] = (len(dim_x), self.Sigma, marginal_density)
        return marginal_density''', ["C05"])
