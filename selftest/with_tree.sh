#!/bin/bash
# Usage: selftest/with_tree.sh <commit-ish | patch-file> <prop> [tier]
# Runs ./check <prop> <tier> against a scratch worktree of /repo at <commit-ish>, or of HEAD with <patch-file> applied.
# The scratch tree lives under /tmp and is removed afterwards. Replays are written to a throw-away directory.
set -u
what="$1"; prop="$2"; tier="${3:-quick}"
here="$(cd "$(dirname "$0")/.." && pwd)"
wt="$(mktemp -d /tmp/gtwt.XXXXXX)"; rmdir "$wt"
if [ -f "$what" ]; then
  git -C /repo worktree add -q --detach "$wt" HEAD || exit 2
  git -C "$wt" apply "$(realpath "$what")" || { git -C /repo worktree remove --force "$wt"; exit 2; }
else
  git -C /repo worktree add -q --detach "$wt" "$what" || exit 2
fi
cd "$here"
VERIF_REPO="$wt" VERIF_REPLAY_DIR="$wt/.replays" ./check "$prop" "$tier"
rc=$?
git -C /repo worktree remove --force "$wt"
exit $rc
